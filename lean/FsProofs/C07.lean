/-
  C07 — an I/O failure at any point of a move loses no source data.

  Model: `FsModel/Fault.lean` (primitive-step programs of every move path, run with one fault).
  `NoLoss τ root droot s s'` : every file of the source subtree `root` of `s` has its original
  bytes readable at its source path in `s'` OR complete at the corresponding destination path
  (`τ` = side of the destination filesystem; `NoLossFile`/`MovedFile` are the one-file forms).
  `runFault prog k kind s` : step `k` raises `OperationFailed` (`fserr`) / `OSError` (`oserr`)
  instead of executing, the exception propagates through the transcribed `try/except/finally`
  structure; `crash` stops the process before step `k` (no handler runs).
  `(runFault …).hit` : the failing step was reached.

  All theorems quantify over every state (every tree, every file content, ill-formed stores
  included), every step index `k`, every kind and every configuration.
-/
import FsModel.Fault
import FsProofs.Lemmas.FaultMoveLemmas

namespace Fs.C07
open Fs Fs.Fault

/-! ## move_file -/

/-- `fs.move.move_file`, every configuration (same / different filesystem, MemoryFS / OSFS /
    base-class backend on each side, both-syspaths shortcut, `preserve_time`,
    `cleanup_dst_on_error`): whatever step fails, or wherever the process stops, the source file
    is not lost; and a failure is never hidden — the call raises, or the move was nevertheless
    completed (the `os.rename` attempt of `FS.move` falls back to copy + remove). -/
theorem move_file_fault_safe (cfg : Cfg) (s : State) (p q : Path) (k : Nat) (kind : Kind) :
    NoLossFile cfg.dstSide p q s (runFault (moveFile cfg s p q) k kind s).state ∧
    (kind ≠ .crash → (runFault (moveFile cfg s p q) k kind s).hit = true →
      (runFault (moveFile cfg s p q) k kind s).out.isErr = true ∨
      MovedFile cfg.dstSide p q s (runFault (moveFile cfg s p q) k kind s).state) := by
  have hl : ∀ flt, some (Fault.mk k kind false) = some flt → flt.late = false := by
    intro flt h; cases h; rfl
  refine ⟨fun b hb => (moveFile_good _ hl cfg s p q b hb 0).1, fun hk _ => ?_⟩
  cases ho : (runFault (moveFile cfg s p q) k kind s).out with
  | raised x => left; rfl
  | ok => right; intro b hb; exact (moveFile_good _ hl cfg s p q b hb 0).2 ho
  | crashed =>
    exact absurd ho (exec_no_crash _ (fun flt h => by cases h; exact hk) _ 0 s)

/-- the full-strength "the failure is reported" holds whenever `move_file` does not go through
    the `os.rename` attempt … -/
theorem move_file_fault_reported (cfg : Cfg) (hr : cfg.usesRename = false) (s : State) (p q : Path)
    (k : Nat) (kind : Kind) (hk : kind ≠ .crash)
    (hit : (runFault (moveFile cfg s p q) k kind s).hit = true) :
    (runFault (moveFile cfg s p q) k kind s).out.isErr = true :=
  out_isErr_of (exec_hit_not_ok ⟨k, kind, false⟩ _ 0 s (moveFile_transparent kind cfg s p q hr) hit)
    (exec_no_crash _ (fun flt h => by cases h; exact hk) _ 0 s)

def exState : State :=
  { a := { files := [([['d'], ['x']], [1, 2, 3])], dirs := [[['d']]] }, b := { files := [], dirs := [] } }

/-- … and is false when it does: on an OSFS the failure of `os.rename` (step 2) is swallowed by
    `except OSError: pass`, the copy path completes the move and the call returns normally. -/
theorem move_file_rename_failure_reported_counterexample :
    ∃ (cfg : Cfg) (s : State) (p q : Path) (k : Nat),
      (runFault (moveFile cfg s p q) k .oserr s).hit = true ∧
      (runFault (moveFile cfg s p q) k .oserr s).out = .ok := by
  refine ⟨{ same := true, srcB := .os, chunk := 3 }, exState, [['d'], ['x']], [['z']], 2, ?_, ?_⟩ <;> decide

/-- a normal return always means the file is complete at its destination, with or without fault -/
theorem move_file_ok_means_moved (cfg : Cfg) (s : State) (p q : Path) (f : Option Fault)
    (hl : ∀ flt, f = some flt → flt.late = false)
    (ho : (exec f (moveFile cfg s p q) 0 s).out = .ok) :
    MovedFile cfg.dstSide p q s (exec f (moveFile cfg s p q) 0 s).state :=
  fun b hb => (moveFile_good f hl cfg s p q b hb 0).2 ho

/-- crash variant (`os.rename` atomic): wherever the process stops, the file is not lost -/
theorem move_file_crash_safe (cfg : Cfg) (s : State) (p q : Path) (k : Nat) :
    NoLossFile cfg.dstSide p q s (prefixRun (moveFile cfg s p q) k s) :=
  (move_file_fault_safe cfg s p q k .crash).1

/-! ### the assumption "a failed step has no effect" is needed exactly for `cleanup_dst_on_error` -/

/-- If `src_fs.remove(src_path)` can raise an `FSError` *after* it removed the file (a lost reply
    of a remote filesystem), `cleanup_dst_on_error=True` deletes the only remaining copy. -/
theorem move_file_late_failure_cleanup_counterexample :
    ∃ (cfg : Cfg) (s : State) (p q : Path) (k : Nat),
      cfg.cleanup = true ∧
      ¬ NoLossFile cfg.dstSide p q s (runFaultLate (moveFile cfg s p q) k .fserr s).state := by
  refine ⟨{ chunk := 3 }, exState, [['d'], ['x']], [['z']], 9, rfl, ?_⟩
  intro h
  have := h [1, 2, 3] (by decide)
  revert this
  decide

/-- … and only for it: with `cleanup_dst_on_error=False` the standard copy-and-delete path is
    safe even when steps fail after taking effect. -/
theorem move_file_late_failure_safe_without_cleanup (cfg : Cfg) (hs : cfg.same = false)
    (hc : cfg.cleanup = false) (hnb : ¬ (cfg.srcB = .os ∧ cfg.dstB = .os))
    (s : State) (p q : Path) (k : Nat) (kind : Kind) :
    NoLossFile .b p q s (runFaultLate (moveFile cfg s p q) k kind s).state := by
  intro b hb
  unfold runFaultLate moveFile
  simp only [hs, Bool.false_eq_true, if_false, hnb, hc]
  have hd : cfg.dstSide = .b := by simp [Cfg.dstSide, hs]
  refine (ctr_good _ _ _ .b p q b s (fun h => by cases h.1) ?_ ?_ ?_ hb ?_ 0).1
  · have := copyFileInternal_only cfg s p q
    rw [hd] at this
    exact OnlyMut.seq (OnlyMut.pure (fun _ _ => rfl)) this
  · apply Post.seq; apply Post.prim; intro s2 h2
    rw [step_call h2]
    have := copyFileInternal_post cfg s s p q b hb hb (by rw [hd]; intro h; cases h.1)
    rw [hd] at this; exact this
  · intro flt _
    simp [Prog.transparent, copyFileInternal_transparent]
  · intro m s2 h1 h2
    -- `try: remove(src) except FSError: pass; raise`: the handler does nothing
    have hmut : (Prim.remove .a p false).mutates .b q = false := by simp [Prim.mutates]
    have key : (exec (some ⟨k, kind, true⟩) (.tryCatch (.remove .a p false) .fsError .skip true) m s2).state
        = (execPrim (some ⟨k, kind, true⟩) (.remove .a p false) m s2).state := by
      simp only [exec]
      split
      · split
        · rfl
        · rfl
      · rfl
    have hfr := execPrim_frame (some ⟨k, kind, true⟩) (.remove .a p false) m s2 .b q hmut
    refine ⟨Or.inr ?_, fun _ => ?_⟩ <;> (rw [key, hfr]; exact h2)

/-! ## FS.move and MemoryFS.move -/

/-- `FS.move` (fs/base.py): pre-checks, `os.rename` when `supports_rename`, else
    open-source → upload → `copy_modified_time` → `remove(source)`; any `overwrite` /
    `preserve_time`; `(τ, q)` is the destination on the same filesystem object. -/
theorem fs_move_fault_safe (cfg : Cfg) (s : State) (rename : Bool) (τ : Side) (p q : Path)
    (k : Nat) (kind : Kind) :
    NoLossFile τ p q s (runFault (fsMove cfg s rename .a p τ q) k kind s).state ∧
    (kind ≠ .crash → (runFault (fsMove cfg s rename .a p τ q) k kind s).hit = true →
      (runFault (fsMove cfg s rename .a p τ q) k kind s).out.isErr = true ∨
      MovedFile τ p q s (runFault (fsMove cfg s rename .a p τ q) k kind s).state) := by
  have hl : ∀ flt, some (Fault.mk k kind false) = some flt → flt.late = false := by
    intro flt h; cases h; rfl
  refine ⟨fun b hb => (fsMove_good _ hl cfg s rename τ p q b hb 0).1, fun hk _ => ?_⟩
  cases ho : (runFault (fsMove cfg s rename .a p τ q) k kind s).out with
  | raised x => left; rfl
  | ok => right; intro b hb; exact (fsMove_good _ hl cfg s rename τ p q b hb 0).2 ho
  | crashed => exact absurd ho (exec_no_crash _ (fun flt h => by cases h; exact hk) _ 0 s)

/-- without the rename attempt every failure of `FS.move` reaches the caller -/
theorem fs_move_fault_reported (cfg : Cfg) (s : State) (τ : Side) (p q : Path)
    (k : Nat) (kind : Kind) (hk : kind ≠ .crash)
    (hit : (runFault (fsMove cfg s false .a p τ q) k kind s).hit = true) :
    (runFault (fsMove cfg s false .a p τ q) k kind s).out.isErr = true :=
  out_isErr_of (exec_hit_not_ok ⟨k, kind, false⟩ _ 0 s (fsMove_norename_transparent _ cfg s .a p τ q) hit)
    (exec_no_crash _ (fun flt h => by cases h; exact hk) _ 0 s)

theorem fs_move_crash_safe (cfg : Cfg) (s : State) (rename : Bool) (τ : Side) (p q : Path) (k : Nat) :
    NoLossFile τ p q s (prefixRun (fsMove cfg s rename .a p τ q) k s) :=
  (fs_move_fault_safe cfg s rename τ p q k .crash).1

/-- `MemoryFS.move` is atomic: the only step with an effect is the re-link done under the lock
    (no I/O between unlink and link), so under every fault and at every crash point the
    filesystem is either exactly as before or exactly as after the complete move. -/
theorem mem_move_atomic (cfg : Cfg) (s : State) (p q : Path) (k : Nat) (kind : Kind) :
    (memMove cfg p q).prims.filter (fun pr => !pr.isPure) = [.relinkFile .a p q cfg.overwrite] ∧
    ((runFault (memMove cfg p q) k kind s).state = s ∨
     (Prim.relinkFile .a p q cfg.overwrite).step s = .ok (runFault (memMove cfg p q) k kind s).state) := by
  constructor
  · cases hp : cfg.preserveAtomic <;> simp [memMove, preservePart, copyModTime, Prog.prims, Prim.isPure, hp]
  · unfold runFault memMove
    have hpure : ∀ pr ∈ (preservePart cfg.preserveAtomic .a p .a q).prims, pr.isPure = true := by
      intro pr hpr
      cases hp : cfg.preserveAtomic
      · simp [preservePart, hp, Prog.prims] at hpr
      · simp [preservePart, copyModTime, hp, Prog.prims] at hpr
        rcases hpr with rfl | rfl <;> rfl
    apply exec_pure_seq _ _ rfl _ 0 s
      (fun st _ => st = s ∨ (Prim.relinkFile .a p q cfg.overwrite).step s = .ok st) (fun _ _ => Or.inl rfl)
    simp only [exec]
    rcases execPrim_cases (some ⟨k, kind, false⟩) (.relinkFile .a p q cfg.overwrite) 1 s with ⟨h1, _⟩ | h1
    · split
      · simp only; left; rw [exec_allpure_state _ _ _ _ hpure, h1]
      · left; exact h1
    · split
      · simp only; right; rw [exec_allpure_state _ _ _ _ hpure]; exact h1
      · right; exact h1

theorem mem_move_fault_safe (cfg : Cfg) (s : State) (p q : Path) (k : Nat) (kind : Kind) :
    NoLossFile .a p q s (runFault (memMove cfg p q) k kind s).state := by
  intro b hb
  exact (memMove_good _ (fun flt h => by cases h; rfl) cfg s p q b hb 0).1

/-! ## move_dir / move_fs / movedir -/

/-- `fs.move.move_dir` with the sequential copier (`workers = 0`), for every tree, every backend
    pair, every `preserve_time`: whatever step fails or wherever the process stops, every file of
    the source tree is intact at its source path or complete at its destination path; a failure
    always reaches the caller; a normal return means the whole tree arrived.
    `hclash` matters only for a move *inside one filesystem* whose destination is not inside the
    source (that case raises `IllegalDestination` before anything is copied): see `NoClash`,
    `noClash_of_not_ancestor` and `move_dir_same_fs_clash_counterexample`. -/
theorem move_dir_fault_safe (cfg : Cfg) (s : State) (root droot : Path)
    (hclash : cfg.same = true → isPre root droot = false → NoClash s root droot) (k : Nat) (kind : Kind) :
    NoLoss cfg.dstSide root droot s (runFault (moveDir cfg s root droot) k kind s).state ∧
    (kind ≠ .crash → (runFault (moveDir cfg s root droot) k kind s).hit = true →
      (runFault (moveDir cfg s root droot) k kind s).out.isErr = true) ∧
    ((runFault (moveDir cfg s root droot) k kind s).out = .ok →
      Moved cfg.dstSide root droot s (runFault (moveDir cfg s root droot) k kind s).state) := by
  have h := moveDir_good (some ⟨k, kind, false⟩) cfg s root droot hclash 0
  refine ⟨h.1, fun hk hit => ?_, h.2⟩
  exact out_isErr_of (exec_hit_not_ok ⟨k, kind, false⟩ _ 0 s (moveDir_transparent kind cfg s root droot) hit)
    (exec_no_crash _ (fun flt h => by cases h; exact hk) _ 0 s)

/-- crash variant: wherever the process stops inside `move_dir`, no file of the tree is lost -/
theorem move_dir_crash_safe (cfg : Cfg) (s : State) (root droot : Path)
    (hclash : cfg.same = true → isPre root droot = false → NoClash s root droot) (k : Nat) :
    NoLoss cfg.dstSide root droot s (prefixRun (moveDir cfg s root droot) k s) :=
  (move_dir_fault_safe cfg s root droot hclash k .crash).1

/-- the same for steps that fail *after* taking effect: `move_dir` has no cleanup handler, so it
    does not depend on failures being atomic -/
theorem move_dir_late_fault_safe (cfg : Cfg) (s : State) (root droot : Path)
    (hclash : cfg.same = true → isPre root droot = false → NoClash s root droot) (k : Nat) (kind : Kind) :
    NoLoss cfg.dstSide root droot s (runFaultLate (moveDir cfg s root droot) k kind s).state :=
  (moveDir_good (some ⟨k, kind, true⟩) cfg s root droot hclash 0).1

/-- `fs.move.move_fs` between two filesystems -/
theorem move_fs_fault_safe (cfg : Cfg) (hs : cfg.same = false) (s : State) (k : Nat) (kind : Kind) :
    NoLoss .b [] [] s (runFault (moveFs cfg s) k kind s).state ∧
    (kind ≠ .crash → (runFault (moveFs cfg s) k kind s).hit = true →
      (runFault (moveFs cfg s) k kind s).out.isErr = true) := by
  have h := move_dir_fault_safe cfg s [] [] (fun h => by rw [hs] at h; cases h) k kind
  have hd : cfg.dstSide = .b := by simp [Cfg.dstSide, hs]
  rw [hd] at h
  exact ⟨h.1, h.2.1⟩

/-- `FS.movedir` (base class; also what `MemoryFS.movedir` falls back to for an existing
    destination) -/
theorem fs_movedir_fault_safe (cfg : Cfg) (s : State) (p q : Path)
    (hclash : isPre p q = false → NoClash s p q) (k : Nat) (kind : Kind) :
    NoLoss .a p q s (runFault (fsMovedir cfg s p q) k kind s).state ∧
    ((runFault (fsMovedir cfg s p q) k kind s).out = .ok →
      Moved .a p q s (runFault (fsMovedir cfg s p q) k kind s).state) :=
  fsMovedir_good _ cfg s p q hclash 0

/-- `MemoryFS.movedir`: re-link (one atomic step under the lock) when the destination does not
    exist, else the base class -/
theorem mem_movedir_fault_safe (cfg : Cfg) (s : State) (p q : Path)
    (hclash : isPre p q = false → NoClash s p q) (k : Nat) (kind : Kind) :
    NoLoss .a p q s (runFault (memMovedir cfg s p q) k kind s).state ∧
    ((runFault (memMovedir cfg s p q) k kind s).out = .ok →
      Moved .a p q s (runFault (memMovedir cfg s p q) k kind s).state) :=
  memMovedir_good _ (fun flt h => by cases h; rfl) cfg s p q hclash 0

/-- the clash hypothesis holds whenever the destination is not the source or one of its
    ancestors — i.e. for every same-filesystem move except "move a directory up" -/
theorem noClash_of_not_ancestor (s : State) (root droot : Path) (h : isPre droot root = false)
    (h' : isPre root droot = false) : NoClash s root droot := by
  intro x _ _
  cases hc : isPre root (rebase root droot x) with
  | false => rfl
  | true =>
    -- `root` and `droot` are both prefixes of the rebased path, so one is a prefix of the other
    have h1 := (isPre_iff _ _).1 hc
    have h2 := (isPre_iff _ _).1 (isPre_rebase root droot x)
    rcases List.prefix_or_prefix_of_prefix h1 h2 with h3 | h3
    · rw [← isPre_iff] at h3; rw [h3] at h'; cases h'
    · rw [← isPre_iff] at h3; rw [h3] at h; cases h

def clashState : State :=
  { a := { files := [([['a'], ['a'], ['x']], [7])], dirs := [[['a']], [['a'], ['a']]] },
    b := { files := [], dirs := [] } }

/-- … and it cannot be dropped: `movedir("a", "/")` with `a/a/x` present copies `a/a/x` to `a/x`
    — inside the source — and `removetree("a")` then deletes both.  No fault is needed (the open
    known finding `movedir-dst-ancestor-of-src-name-clash`, C01/C05/C06). -/
theorem move_dir_same_fs_clash_counterexample :
    ∃ (cfg : Cfg) (s : State) (root droot : Path),
      cfg.same = true ∧ (run (moveDir cfg s root droot) s).out = .ok ∧
      ¬ NoLoss cfg.dstSide root droot s (run (moveDir cfg s root droot) s).state := by
  refine ⟨{ same := true, chunk := 3 }, clashState, [['a']], [], rfl, by decide, ?_⟩
  intro h
  have := h [['a'], ['a'], ['x']] [7] (by decide) (by decide)
  revert this
  decide

/-! ## the source is removed last -/

/-- `move_dir` is "copy phase ; removal phase": (1) the program text splits that way;
    (2) no step of the copy phase can change a file of the source tree; (3) every step of the
    removal phase changes only entries of the source tree, and nothing follows it;
    (4) the removal phase is entered only if every step of the copy phase returned — under
    every fault. -/
theorem source_removed_last (cfg : Cfg) (s : State) (root droot : Path)
    (hclash : cfg.same = true → NoClash s root droot) :
    moveDir cfg s root droot = (moveDirCopyPhase cfg s root droot ;; removeTree cfg s root) ∧
    (∀ pr ∈ (moveDirCopyPhase cfg s root droot).prims, ∀ x, isPre root x = true → pr.mutates .a x = false) ∧
    (∀ pr ∈ (removeTree cfg s root).prims, ∀ ρ y, pr.mutates ρ y = true → ρ = .a ∧ isPre root y = true) ∧
    (∀ (f : Option Fault) (n : Nat),
      (exec f (moveDir cfg s root droot) n s).state ≠ (exec f (moveDirCopyPhase cfg s root droot) n s).state →
      (exec f (moveDirCopyPhase cfg s root droot) n s).out = .ok) := by
  refine ⟨rfl, ?_, removeTree_within cfg s root, ?_⟩
  · intro pr hpr x hx
    cases hm : pr.mutates .a x with
    | false => rfl
    | true =>
      obtain ⟨h1, x', hx', he⟩ := moveDirCopyPhase_within cfg s root droot pr hpr .a x hm
      obtain ⟨hp', hf'⟩ := mem_treeFiles hx'
      exact absurd ⟨h1.symm, he.symm⟩ (dst_ne_src cfg s root droot hclash x' x hp' hf' hx)
  · intro f n hne
    unfold moveDir at hne
    simp only [exec] at hne
    cases ho : (exec f (moveDirCopyPhase cfg s root droot) n s).out with
    | ok => rfl
    | raised x => simp [ho] at hne
    | crashed => simp [ho] at hne

/-- the same for the standard path of `move_file`: `remove(src)` is the last statement, guarded
    by the only handler, and the copy before it writes to the destination entry only -/
theorem source_removed_last_file (cfg : Cfg) (hs : cfg.same = false) (hnb : ¬ (cfg.srcB = .os ∧ cfg.dstB = .os))
    (s : State) (p q : Path) :
    moveFile cfg s p q =
      ((.prim (.call "copy_file" .a p) ;; copyFileInternal cfg s p q) ;;
       .tryCatch (.remove .a p false) .fsError (if cfg.cleanup then .prim (.remove .b q false) else .skip) true) ∧
    (∀ pr ∈ (Prog.prim (.call "copy_file" .a p) ;; copyFileInternal cfg s p q).prims,
      ∀ ρ y, pr.mutates ρ y = true → ρ = .b ∧ y = q) := by
  constructor
  · unfold moveFile; simp [hs, hnb]
  · intro pr hpr ρ y hm
    have hd : cfg.dstSide = .b := by simp [Cfg.dstSide, hs]
    have := OnlyMut.seq (OnlyMut.pure (p := .call "copy_file" .a p) (τ := .b) (q := q) (fun _ _ => rfl))
      (by have := copyFileInternal_only cfg s p q; rw [hd] at this; exact this)
    obtain ⟨h1, h2⟩ := this pr hpr ρ y hm
    exact ⟨h1.symm, h2.symm⟩

/-! ## worker threads -/

/-- What C07 needs of `copy_dir` run by the `Copier` with `workers > 0` — each field is a theorem
    of C09 about the bulk-copy transition system, taken here as an explicit hypothesis:
    `copyDir s s' o` = "copy_dir started in `s` can end in `s'` with outcome `o`", for some
    schedule of producer and workers and some placement of the fault. -/
structure BulkCopier (τ : Side) (root droot : Path) (copyDir : State → State → Out → Prop) : Prop where
  /-- C09 `bulk_error_never_hidden` (+ `bulk_equals_sequential`): if any transfer failed,
      `copy_dir` raises; so a normal return means every file was transferred completely -/
  bulk_error_never_hidden : ∀ s s', copyDir s s' .ok → Moved τ root droot s s'
  /-- the copier opens source files for reading only -/
  bulk_reads_source_only : ∀ s s' o, copyDir s s' o → SrcIntact root s s'

/-- `move_dir` around an abstract parallel `copy_dir`: source check and `makedir(dst)`, then
    `copy_dir`, then `removetree(src)` only if `copy_dir` returned -/
inductive MoveDirW (cfg : Cfg) (copyDir : State → State → Out → Prop) (f : Option Fault)
    (s : State) (root droot : Path) : State → Out → Prop where
  | preFailed (h : (exec f (.prim (.getinfo .a root) ;; .prim (.makedir cfg.dstSide droot true)) 0 s).out ≠ .ok) :
      MoveDirW cfg copyDir f s root droot
        (exec f (.prim (.getinfo .a root) ;; .prim (.makedir cfg.dstSide droot true)) 0 s).state
        (exec f (.prim (.getinfo .a root) ;; .prim (.makedir cfg.dstSide droot true)) 0 s).out
  | copyFailed (s2 : State) (o : Out)
      (h : (exec f (.prim (.getinfo .a root) ;; .prim (.makedir cfg.dstSide droot true)) 0 s).out = .ok)
      (hc : copyDir (exec f (.prim (.getinfo .a root) ;; .prim (.makedir cfg.dstSide droot true)) 0 s).state s2 o)
      (ho : o ≠ .ok) : MoveDirW cfg copyDir f s root droot s2 o
  | copied (s2 : State) (n : Nat)
      (h : (exec f (.prim (.getinfo .a root) ;; .prim (.makedir cfg.dstSide droot true)) 0 s).out = .ok)
      (hc : copyDir (exec f (.prim (.getinfo .a root) ;; .prim (.makedir cfg.dstSide droot true)) 0 s).state s2 .ok) :
      MoveDirW cfg copyDir f s root droot (exec f (removeTree cfg s root) n s2).state
        (exec f (removeTree cfg s root) n s2).out

/-- `move_dir` / `move_fs` with any number of workers and any schedule: nothing is lost, and a
    normal return means the tree arrived — because `removetree(src)` runs only after `copy_dir`
    returned, and (C09) `copy_dir` returns only if every transfer succeeded. -/
theorem move_dir_fault_safe_workers (cfg : Cfg) (copyDir : State → State → Out → Prop)
    (s : State) (root droot : Path) (hC : BulkCopier cfg.dstSide root droot copyDir)
    (hclash : cfg.same = true → NoClash s root droot)
    (f : Option Fault) (s' : State) (o : Out) (hrun : MoveDirW cfg copyDir f s root droot s' o) :
    NoLoss cfg.dstSide root droot s s' ∧ (o = .ok → Moved cfg.dstSide root droot s s') := by
  have hpre : ∀ ρ y, (exec f (.prim (.getinfo .a root) ;; .prim (.makedir cfg.dstSide droot true)) 0 s).state.file ρ y
      = s.file ρ y := by
    intro ρ y
    apply exec_frame
    intro pr hpr
    simp only [Prog.prims, List.mem_append, List.mem_singleton] at hpr
    rcases hpr with rfl | rfl <;> rfl
  cases hrun with
  | preFailed h =>
    exact ⟨fun x b _ hb => Or.inl (by rw [hpre]; exact hb), fun ho => absurd ho h⟩
  | copyFailed s2 o h hc ho =>
    refine ⟨fun x b hx hb => Or.inl ?_, fun h' => absurd h' ho⟩
    exact hC.bulk_reads_source_only _ _ _ hc x b hx (by rw [hpre]; exact hb)
  | copied s2 n h hc =>
    have hm : Moved cfg.dstSide root droot s (exec f (removeTree cfg s root) n s2).state := by
      intro x b hx hb
      rw [(removeTree_within cfg s root).frame f cfg.dstSide (rebase root droot x) ?_ n s2]
      · exact hC.bulk_error_never_hidden _ _ hc x b hx (by rw [hpre]; exact hb)
      · intro ⟨h1, h2⟩
        exact dst_ne_src cfg s root droot hclash x (rebase root droot x) hx (file_isFile hb) h2 ⟨h1, rfl⟩
    exact ⟨fun x b hx hb => Or.inr (hm x b hx hb), fun _ => hm⟩

/-! ## the hypotheses are satisfiable; the model computes what it should on a concrete tree -/

def exTree : State :=
  { a := { files := [([['d'], ['x']], [1, 2, 3, 4, 5]), ([['d'], ['e'], ['y']], []), ([['t']], [9])],
           dirs := [[['d']], [['d'], ['e']]] },
    b := { files := [], dirs := [] } }

example : NoClash exTree [['d']] [['q']] := noClash_of_not_ancestor _ _ _ (by decide) (by decide)

/-- un-faulted `move_dir` MemoryFS → OSFS with a 2-byte chunk: returns, tree moved, source gone,
    the unrelated file `t` untouched -/
example :
    (run (moveDir { dstB := .os, chunk := 1, preserve := true } exTree [['d']] [['q']]) exTree).out = .ok ∧
    (run (moveDir { dstB := .os, chunk := 1, preserve := true } exTree [['d']] [['q']]) exTree).state.file .b
      [['q'], ['x']] = some [1, 2, 3, 4, 5] ∧
    (run (moveDir { dstB := .os, chunk := 1, preserve := true } exTree [['d']] [['q']]) exTree).state.file .a
      [['d'], ['x']] = none ∧
    (run (moveDir { dstB := .os, chunk := 1, preserve := true } exTree [['d']] [['q']]) exTree).state.file .a
      [['t']] = some [9] := by decide

/-- a fault in the middle of the second chunk: raised, source intact, destination partial -/
example :
    (runFault (moveDir { chunk := 1 } exTree [['d']] [['q']]) 15 .fserr exTree).out = .raised (.fs .OperationFailed) ∧
    (runFault (moveDir { chunk := 1 } exTree [['d']] [['q']]) 15 .fserr exTree).hit = true ∧
    srcIntactB exTree (runFault (moveDir { chunk := 1 } exTree [['d']] [['q']]) 15 .fserr exTree).state [['d']] = true ∧
    dstCompleteB .b exTree (runFault (moveDir { chunk := 1 } exTree [['d']] [['q']]) 15 .fserr exTree).state
      [['d']] [['q']] = false := by decide

/-- a trivial copier satisfying the C09 hypotheses exists (it never returns normally) -/
example : BulkCopier .b [['d']] [['q']] (fun s s' o => s' = s ∧ o = .raised (.fs .BulkCopyFailed)) :=
  ⟨fun _ _ h => (by cases h.2), fun _ _ _ h => (by rw [h.1]; exact srcIntact_refl _ _)⟩

end Fs.C07
