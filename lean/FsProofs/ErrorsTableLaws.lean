/-
  ErrorsTableLaws — the class table of `fs/errors.py` / `fs/opener/errors.py`, regenerated from `$VERIF_REPO` on
  every run (`FsModel/Generated/ErrorsTable.lean`, written by harness/extract/errorstable.py), against what the
  model assumes about the error classes it reports (`FsModel/ErrorsModel.lean`: `pyAncestors`, `modelled`).
  Everything is decided by the kernel on the regenerated table: a change of a base class, of a message template,
  of a constructor, of a `__reduce__` makes the corresponding theorem fail to build, and the obligation goes to
  C06's failing-input search (the live classes: `__mro__`, `vars()`, `str()`, a pickle round trip).
-/
import FsModel.ErrorsModel
import FsModel.Generated.ErrorsTable

namespace Fs.ErrorsTableLaws
open Fs Fs.ErrorsModel Fs.Generated

/-- the extractor read both files and understood every statement of every class -/
theorem table_understood :
    errorsTableNotes = [] ∧ errorsTable.all (fun c => c.unknown.isEmpty) = true := by decide +kernel

/-- no two classes share a name -/
theorem names_distinct : (errorsTable.map (·.name)).Nodup := by decide +kernel

/-- every class has exactly one base, which is a builtin exception or a class stated EARLIER in the table: the
hierarchy is a forest and `mro` is the linearisation Python computes -/
def basesEarlier : List ErrClass → List String → Bool
  | [], _ => true
  | c :: r, seen =>
    (match c.bases with
     | [b] => seen.contains b || (builtins.map (·.1)).contains b
     | _ => false) && basesEarlier r (c.name :: seen)

theorem bases_defined_earlier : basesEarlier errorsTable [] = true := by decide +kernel

/-- every class the model reports exists, with exactly the ancestors the model assumes: `ResourceNotFound` below
`ResourceError` below `FSError`, `FileExpected` / `DirectoryExpected` below `ResourceInvalid`, …,
`IllegalBackReference` and `ParseError` below `ValueError` and NOT below `FSError` -/
theorem model_classes_exist (e : Err) (h : pyAncestors e ≠ []) :
    (find errorsTable e.name).isSome = true ∧ mro errorsTable e.name = e.name :: pyAncestors e := by
  cases e <;> first | exact absurd rfl h | decide +kernel

/-- `modelled` lists exactly the classes with assumed ancestors -/
theorem modelled_complete (e : Err) : pyAncestors e ≠ [] ↔ e ∈ modelled := by
  cases e <;> decide +kernel

/-- a modelled class is caught by `except FSError` unless the model says it is a `ValueError` -/
theorem model_family (e : Err) (h : e ∈ modelled) :
    (mro errorsTable e.name).contains "FSError" = !(e == .IllegalBackReference || e == .ParseError) := by
  cases e <;> first | decide +kernel | exact absurd h (by decide +kernel)

/-- the classes of fs/errors.py outside `FSError` are the four recorded ones -/
theorem fs_errors_family :
    (errorsTable.filter (fun c => c.file == "fs/errors.py" && !(mro errorsTable c.name).contains "FSError")).map (·.name)
      = outsideFSError := by decide +kernel

/-- nothing derives from the classes the translated functions catch by name (`except ResourceNotFound:` in
`fs.copy._copy_is_necessary` is the arm `.err .ResourceNotFound` of the generated code) -/
theorem caught_classes_are_leaves :
    errorsTable.all (fun c => !(mro errorsTable c.name).contains "ResourceNotFound" || c.name == "ResourceNotFound") = true := by
  decide +kernel

/-- `super(C, self).__init__` names the class itself or one of its ancestors -/
theorem super_names_ancestor :
    errorsTable.all (fun c => match c.superInit with
      | some w => (mro errorsTable c.name).contains w
      | none => true) = true := by decide +kernel

/-- every replacement field of every class's message template is an attribute its constructor chain sets:
`default_message.format(**self.__dict__)` cannot raise KeyError -/
theorem templates_closed :
    errorsTable.all (fun c => match templateOf errorsTable c.name with
      | some tpl => (placeholders tpl).all (fun p => (fieldsOf errorsTable c.name).contains p)
      | none => true) = true := by decide +kernel

/-- a class whose `__str__` formats `self._msg` has `_msg` set by its constructor chain (also `CreateFailed`,
which does not call `FSError.__init__`) -/
theorem str_attribute_set :
    errorsTable.all (fun c => match formatsOf errorsTable c.name with
      | some a => (fieldsOf errorsTable c.name).contains a
      | none => true) = true := by decide +kernel

/-- `__str__` / `__repr__` / `_format_msg` of the `FSError` family are `FSError`'s: no subclass overrides them -/
theorem render_is_fserrors :
    errorsTable.all (fun c => !(mro errorsTable c.name).contains "FSError" || c.name == "FSError" ||
      (!c.definesStr && !c.definesRepr && c.formats.isNone)) = true := by decide +kernel

/-- every modelled class below `FSError` has a message template -/
theorem model_templates (e : Err) (h : e ∈ modelled) :
    (mro errorsTable e.name).contains "FSError" = true → (templateOf errorsTable e.name).isSome = true := by
  cases e <;> first | decide +kernel | exact absurd h (by decide +kernel)

/-- the constructor call `__reduce__` asks for is the class's own constructor with the attributes it set, for
every class but the two recorded ones -/
theorem pickle_sound_except :
    (errorsTable.filter (fun c => !pickleSound errorsTable c.name)).all (fun c => pickleRecorded.contains c.name) = true := by
  decide +kernel

/-- the scanner on the shapes that matter: escaped braces, conversions, attribute / index access -/
theorem placeholders_examples :
    placeholders "path '{path}' has no '{purpose}' URL" = ["path", "purpose"] ∧
    placeholders "{{literal}} {a!r} {b:>4} {c.d} {e[0]} {}" = ["a", "b", "c", "e", ""] := by decide +kernel

end Fs.ErrorsTableLaws
