/-
  C14 — glob and wildcard matching follow the documented shell semantics.

  Property theorems only (helper lemmas: FsProofs/Lemmas/GlobLemmas.lean).  The model is
  FsModel/Regex.lean (the regex subset the library generates, with Python's meaning),
  FsModel/Wild.lean and FsModel/Glob.lean (fs/wildcard.py, fs/glob.py, fs/lrucache.py as
  written at /repo 8d610d8; `WildSpec` / `GlobSpec` = the documented semantics written directly).

  All statements quantify over every pattern / name / path (`Str = List Char`), no length bound.
-/
import FsModel.Regex
import FsModel.Wild
import FsModel.Glob
import FsProofs.Lemmas.GlobLemmas

namespace Fs.C14
open Fs Fs.Regex Fs.Path Fs.GlobSpec Fs.GlobLemmas

/-! ## wildcard (fs/wildcard.py) -/

/-- `wildcard.match` / `imatch` decide exactly the documented (fnmatch) relation on names without
`/`: `?` is any one character — also a newline —, `*` any run, bracket expressions as documented,
and `\Z` forces the whole name to be used up.  The only other outcome is `re.error`
(a reversed range such as `[b-a]`; finding C14-reversed-range-re-error). -/
theorem wildcard_correct (pat name : Str) (cs : Bool) (hname : '/' ∉ name) :
    Wild.wmatch pat name cs = .ok (WildSpec.wmatches pat name cs) ∨
      Wild.wmatch pat name cs = .err .reError := by
  unfold Wild.wmatch Wild.compile Wild.translate
  rw [wild_go_eq]
  cases h : Glob.mapM' wildItem (WildSpec.tokenize (if cs = true then pat else Wild.lowerStr pat) 0) with
  | ok items =>
    left
    simp only [TR.map, Regex.matches, flags_ms]
    rw [wild_tokens_match cs _ items h none name hname]
    cases cs <;> rfl
  | err e =>
    right
    have : e = .reError := mapM_wildItem_err _ e h
    subst this; rfl

/-- a name is matched in full, across newlines: no partial and no first-line-only match -/
example : Wild.wmatch "a".toList "a\nb".toList true = .ok false := by decide
example : Wild.wmatch "a?b".toList "a\nb".toList true = .ok true := by decide
example : Wild.wmatch "[!a-c]*.P?".toList "d.x.py".toList false = .ok true := by decide

/-! ## glob (fs/glob.py)

The full statement

    theorem glob_correct_full (pat : Str) (path : List Str) (isDir cs : Bool) (c : Glob.Compiled)
        (h : Glob.translateGlob pat cs = .ok c) :
        c.re.matches (render path isDir) = GlobSpec.matches pat path isDir cs

is still FALSE of the code as repaired (8d610d8), for one remaining reason inside the documented
language — `two_level_matches_one_level_dir` below — and for patterns whose meaning the
documentation leaves open (`.`/`..` components, a `**` glued to other text).  `glob_correct` proves
it everywhere else.  Four earlier deviation classes (newline, `**` after another component,
bracket expressions vs `/`, directories vs slash-less patterns) were repaired in /repo; their
former witnesses are kept as `_repaired` regression theorems. -/

/-- **Correctness.**  For every pattern that is `Regular` — no `.`/`..` component, every `**` a whole
component (anywhere in the pattern) —, every resource whose names a filesystem can hold (non-empty,
no `/`; newlines, brackets, anything else allowed), files and directories, both case modes: the
compiled regex accepts the rendered path exactly when the documented semantics says the resource
matches — except for a *directory* against a pattern without trailing `/` whose last non-`**`
component consists of `*` only (`emptyTail`; the open finding below). -/
theorem glob_correct (pat : Str) (path : List Str) (isDir cs : Bool)
    (hreg : Regular pat = true) (hpath : ∀ n ∈ path, FsName n)
    (hdir : isDir = true → endsWithSlash pat = false → emptyTail (pcomps pat) = false)
    (c : Glob.Compiled) (hc : Glob.translateGlob pat cs = .ok c) :
    c.re.matches (render path isDir) = GlobSpec.matches pat path isDir cs :=
  glob_core pat path isDir cs hreg hpath hdir c hc

/-- for files the last hypothesis is void: on files the statement holds for every Regular pattern -/
theorem glob_correct_files (pat : Str) (path : List Str) (cs : Bool)
    (hreg : Regular pat = true) (hpath : ∀ n ∈ path, FsName n)
    (c : Glob.Compiled) (hc : Glob.translateGlob pat cs = .ok c) :
    c.re.matches (render path false) = GlobSpec.matches pat path false cs :=
  glob_core pat path false cs hreg hpath (fun h => by cases h) c hc

/-- the hypotheses are satisfiable, non-trivially -/
example : Regular "a/**/[!]x]*.p?/**".toList = true := by decide
example : emptyTail (pcomps "**/*.py".toList) = false := by decide
example : (Glob.translateGlob "a/**/[!]x]*.p?".toList).map
    (·.re.matches (render ["a".toList, "q\n".toList, "b.py".toList] true)) = .ok true := by decide
example : FsName "b\n.py".toList := ⟨by decide, by decide⟩

/-! ### what remains open -/

/-- OPEN: `*/*` matches the one-level directory `/d/` (the `/` appended to a directory is taken
for the separator in front of an *empty* last name). findings/C14-empty-component-matches-dir-slash.md -/
theorem two_level_matches_one_level_dir :
    (Glob.translateGlob "*/*".toList).map (·.re.matches (render ["d".toList] true)) = .ok true ∧
      GlobSpec.matches "*/*".toList ["d".toList] true = false := by decide

/-- the negation of the full statement (a Regular pattern, an ordinary directory) -/
theorem glob_correct_full_counterexample :
    ¬ ∀ (pat : Str) (path : List Str) (isDir cs : Bool) (c : Glob.Compiled),
        Regular pat = true → (∀ n ∈ path, FsName n) → Glob.translateGlob pat cs = .ok c →
        c.re.matches (render path isDir) = GlobSpec.matches pat path isDir cs := by
  intro h
  obtain ⟨h1, h2⟩ := two_level_matches_one_level_dir
  cases hc : Glob.translateGlob "*/*".toList true with
  | err e => rw [hc] at h1; cases h1
  | ok c =>
    rw [hc] at h1
    simp only [TR.map, TR.ok.injEq] at h1
    have := h "*/*".toList ["d".toList] true true c (by decide)
      (by intro n hn; simp at hn; subst hn; exact ⟨by decide, by decide⟩) hc
    rw [h1, h2] at this
    cases this

/-- OPEN: a reversed range makes `match` raise `re.error`. findings/C14-reversed-range-re-error.md -/
theorem reversed_range_raises : Glob.gmatch "[b-a]".toList "x".toList = .err .reError := by decide

/-! ### regression theorems for the repaired classes (former counterexamples) -/

/-- 8d610d8: `glob("*")` yields directories (a pattern without trailing `/` accepts `<path>/`). -/
theorem star_matches_directories_repaired :
    (Glob.translateGlob "*".toList).map (·.re.matches (render ["d".toList] true)) = .ok true ∧
      GlobSpec.matches "*".toList ["d".toList] true = true := by decide

/-- 2f2ca27: the regex ends in `\Z` without MULTILINE: `match("a", "a\nb")` is False. -/
theorem dollar_newline_repaired :
    (Glob.translateGlob "a".toList).map (·.re.matches (render ["a\nb".toList] false)) = .ok false ∧
      GlobSpec.matches "a".toList ["a\nb".toList] false = false := by decide

/-- 81a3019: `**` absorbs whole levels only: `a/**/b` does not match `/ax/b`, does match `/a/x/y/b`. -/
theorem starstar_whole_levels_repaired :
    (Glob.translateGlob "a/**/b".toList).map (·.re.matches (render ["ax".toList, "b".toList] false)) = .ok false ∧
      (Glob.translateGlob "a/**/b".toList).map
        (·.re.matches (render ["a".toList, "x".toList, "y".toList, "b".toList] false)) = .ok true ∧
      (Glob.translateGlob "a/**/b".toList).map (·.re.matches (render ["a".toList, "b".toList] false)) = .ok true := by
  decide

/-- 810a9af: `[!…]` keeps its fnmatch meaning (`]` / `-` first are members), no text is injected. -/
theorem negated_class_repaired :
    (Glob.translateGlob "[!-a]".toList).map (·.re.matches (render ["B".toList] false)) = .ok true ∧
      (Glob.translateGlob "[!]a]".toList).map (·.re.matches (render ["b".toList] false)) = .ok true ∧
      (Glob.translateGlob "[!]a]".toList).map (·.re.matches (render ["]".toList] false)) = .ok false ∧
      (Glob.translateGlob "a[!]|.*|]".toList).map
        (·.re.matches (render ["anything".toList, "at".toList, "all".toList] false)) = .ok false := by decide

/-- 810a9af: a bracket range that contains `/` no longer matches the separator. -/
theorem class_range_separator_repaired :
    (Glob.translateGlob "a[+-9]b".toList).map (·.re.matches "/a/b".toList) = .ok false ∧
      (Glob.translateGlob "a[+-9]b".toList).map (·.re.matches "/a5b".toList) = .ok true := by decide

/-! ### depth pruning -/

/-- **Depth pruning never loses a match**: when `_translate_glob` returns `levels = k`, every
resource the regex accepts lies at depth ≤ k — so `Globber` may pass `max_depth = k`.  No condition
on the pattern; the names only have to be names (non-empty, no `/`). -/
theorem levels_sound (pat : Str) (path : List Str) (isDir cs : Bool)
    (hpath : ∀ n ∈ path, FsName n)
    (c : Glob.Compiled) (hc : Glob.translateGlob pat cs = .ok c) (k : Nat) (hk : c.levels = some k)
    (hm : c.re.matches (render path isDir) = true) : depth path ≤ k :=
  levels_core pat path isDir cs hpath c hc k hk hm

example : (Glob.translateGlob "a/*".toList).map (·.levels) = .ok (some 2) := by decide

/-- the two former counterexamples of `levels_sound` (newline, range containing `/`) -/
theorem levels_newline_repaired :
    (Glob.translateGlob "a".toList).map (fun c => (c.levels, c.re.matches (render ["a\n".toList, "b".toList] false)))
      = .ok (some 1, false) := by decide

theorem levels_slash_range_repaired :
    (Glob.translateGlob "a[+-9]b".toList).map (fun c => (c.levels, c.re.matches (render ["a".toList, "b".toList] false)))
      = .ok (some 1, false) := by decide

/-! ## the printer: the structured translation *is* the text the code builds

The correspondence compares the model's regex text with the string built by the real
translators character for character; these two theorems say that the AST the theorems above
reason about prints to exactly that text (and carries the same `levels` / `recursive`). -/

theorem wildcard_regex_text (pat : Str) (cs : Bool) (r : Regex) (h : Wild.compile pat cs = .ok r) :
    r.toPy = Wild.regexText pat cs :=
  wild_print pat cs r h

theorem glob_regex_text (pat : Str) (cs : Bool) (c : Glob.Compiled)
    (h : Glob.translateGlob pat cs = .ok c) :
    Glob.translateGlobText pat = .ok (c.levels, c.recursive, c.re.toPy) :=
  glob_print pat cs c h

example : (Glob.translateGlob "a/**/[!x]*.py".toList).map (fun c => String.ofList c.re.toPy)
    = .ok "(?s)^/a(?:/[^/]+)*/(?!/)[^x][^/]*\\.py/?\\Z" := by decide

/-! ## the compiled-pattern caches (fs/lrucache.py; `fs.glob._PATTERN_CACHE`, `fs.wildcard._PATTERN_CACHE`)

Every user of the two process-wide caches is in the model: `glob.match`/`imatch` (read, write on a
miss), `Globber._make_iter` — and through it `__iter__`, `count`, `count_lines`, `remove` — (read
only; a miss compiles privately and stores nothing), `wildcard.match`/`imatch` (read, write on a
miss).  A cache is *valid* when every entry is what compiling its key `(pattern, case_sensitive)`
gives. -/

/-- matching through the LRU cache gives the answer of matching without it and keeps the
cache valid — for every valid cache state, every capacity, every eviction. -/
theorem pattern_cache_transparent (cache : Glob.PatCache) (hv : Glob.PatCache.Valid cache)
    (pat path : Str) (cs : Bool) :
    (Glob.cachedMatch cache pat path cs).1 = Glob.gmatch pat path cs ∧
      Glob.PatCache.Valid (Glob.cachedMatch cache pat path cs).2 :=
  cache_transparent cache hv pat path cs

/-- the Globber's own access: the regex it tests paths with is the one compiled for *its*
`(pattern, case_sensitive)`, whatever other entries the cache holds, and the cache stays valid -/
theorem globber_cache_transparent (cache : Glob.PatCache) (hv : Glob.PatCache.Valid cache)
    (pat subject : Str) (cs : Bool) :
    (Glob.globberTest cache pat subject cs).1 = (Glob.compile pat cs).map (·.re.matches subject) ∧
      Glob.PatCache.Valid (Glob.globberTest cache pat subject cs).2 :=
  globber_transparent cache hv pat subject cs

theorem wildcard_cache_transparent (cache : Wild.PatCache) (hv : Wild.PatCache.Valid cache)
    (pat name : Str) (cs : Bool) :
    (Wild.cachedMatch cache pat name cs).1 = Wild.wmatch pat name cs ∧
      Wild.PatCache.Valid (Wild.cachedMatch cache pat name cs).2 :=
  wild_cache_transparent cache hv pat name cs

/-- **Every history.**  Any interleaving of `match`, `imatch`, Globber runs and wildcard matches —
any patterns, the same pattern text in both case modes, any order — answers, call by call, what
the same calls answer without a cache; in particular a case-insensitive use of a pattern never
changes a later case-sensitive answer for the same text. -/
theorem pattern_caches_transparent (ops : List Glob.CacheOp) (st : Glob.Caches) (hv : st.Valid) :
    (Glob.runAll st ops).1 = ops.map Glob.CacheOp.direct ∧ (Glob.runAll st ops).2.Valid :=
  runAll_transparent ops st hv

/-- the initial (empty) caches are valid -/
theorem pattern_cache_initial (n : Nat) : Glob.PatCache.Valid (LRU.empty n) := empty_valid n

theorem pattern_caches_initial (n m : Nat) : Glob.Caches.Valid ⟨LRU.empty n, LRU.empty m⟩ :=
  ⟨empty_valid n, fun e he => by cases he⟩

/-- Globber case-insensitive, then `match` case-sensitive on the same pattern text -/
example : (Glob.runAll ⟨LRU.empty 4, LRU.empty 4⟩
    [.globber "a*".toList "/A1".toList false, .globMatch "a*".toList "/A1".toList true,
     .globMatch "a*".toList "/A1".toList false, .globber "a*".toList "/A1".toList true]).1
    = [.ok true, .ok false, .ok true, .ok false] := by decide

end Fs.C14
