/-
  C14 — glob and wildcard matching follow the documented shell semantics.

  Property theorems only (helper lemmas: FsProofs/Lemmas/GlobLemmas.lean).  The model is
  FsModel/Regex.lean (the regex subset the library generates, with Python's meaning),
  FsModel/Wild.lean and FsModel/Glob.lean (fs/wildcard.py, fs/glob.py, fs/lrucache.py as
  written; `WildSpec` / `GlobSpec` = the documented semantics written directly).

  All statements quantify over every pattern / name / path (`Str = List Char`), no length bound.
-/
import FsModel.Regex
import FsModel.Wild
import FsModel.Glob
import FsProofs.Lemmas.GlobLemmas

namespace Fs.C14
open Fs Fs.Regex Fs.Path Fs.GlobSpec Fs.GlobLemmas

/-! ## wildcard (fs/wildcard.py) -/

/-- `wildcard.match` / `imatch` decide exactly the documented (fnmatch) relation on names without
`/`: `?` is any one character — also a newline —, `*` any run, bracket expressions as documented,
and `\Z` forces the whole name to be used up.  The only other outcome is `re.error`
(a reversed range such as `[b-a]`; finding C14-reversed-range-re-error). -/
theorem wildcard_correct (pat name : Str) (cs : Bool) (hname : '/' ∉ name) :
    Wild.wmatch pat name cs = .ok (WildSpec.wmatches pat name cs) ∨
      Wild.wmatch pat name cs = .err .reError := by
  unfold Wild.wmatch Wild.compile Wild.translate
  rw [wild_go_eq]
  cases h : Glob.mapM' wildItem (WildSpec.tokenize (if cs = true then pat else Wild.lowerStr pat) 0) with
  | ok items =>
    left
    simp only [TR.map, Regex.matches, flags_ms]
    rw [wild_tokens_match cs _ items h none name hname]
    cases cs <;> rfl
  | err e =>
    right
    have : e = .reError := mapM_wildItem_err _ e h
    subst this; rfl

/-- a name is matched in full, across newlines: no partial and no first-line-only match -/
example : Wild.wmatch "a".toList "a\nb".toList true = .ok false := by decide
example : Wild.wmatch "a?b".toList "a\nb".toList true = .ok true := by decide
example : Wild.wmatch "[!a-c]*.P?".toList "d.x.py".toList false = .ok true := by decide

/-! ## glob (fs/glob.py)

The full statement

    theorem glob_correct (pat : Str) (path : List Str) (isDir cs : Bool) (c : Glob.Compiled)
        (h : Glob.translateGlob pat cs = .ok c) :
        c.re.matches (render path isDir) = GlobSpec.matches pat path isDir cs

is FALSE of the code as written: the six theorems below are `decide`d witnesses (each replayed on
the real `fs.glob.match` by harness/props/c14.py, each a finding under findings/C14-*.md), and
`glob_correct_partial` proves the statement outside exactly these classes. -/

/-- `glob("*")` never yields a directory: directories are matched with a trailing `/`. -/
theorem star_omits_directories :
    (Glob.translateGlob "*".toList).map (·.re.matches (render ["d".toList] true)) = .ok false ∧
      GlobSpec.matches "*".toList ["d".toList] true = true := by decide

/-- `*/*` matches the one-level directory `/d/`. -/
theorem two_level_matches_one_level_dir :
    (Glob.translateGlob "*/*".toList).map (·.re.matches (render ["d".toList] true)) = .ok true ∧
      GlobSpec.matches "*/*".toList ["d".toList] true = false := by decide

/-- under `(?ms)` the final `$` also matches before a newline: `match("a", "a\nb")`. -/
theorem dollar_matches_before_newline :
    (Glob.translateGlob "a".toList).map (·.re.matches (render ["a\nb".toList] false)) = .ok true ∧
      GlobSpec.matches "a".toList ["a\nb".toList] false = false := by decide

/-- a `**` after another component absorbs part of a name: `a/**/b` matches `/ax/b`. -/
theorem starstar_partial_component :
    (Glob.translateGlob "a/**/b".toList).map (·.re.matches (render ["ax".toList, "b".toList] false)) = .ok true ∧
      GlobSpec.matches "a/**/b".toList ["ax".toList, "b".toList] false = false := by decide

/-- `[!` is rewritten to `[^/`: `[!-a]` becomes the *range* `/`–`a` (and `[!]a]` leaves the
structured subset altogether: the set is closed early, the rest is raw regex text). -/
theorem negated_class_dash_becomes_range :
    (Glob.translateGlob "[!-a]".toList).map (·.re.matches (render ["B".toList] false)) = .ok false ∧
      GlobSpec.matches "[!-a]".toList ["B".toList] false = true := by decide

theorem negated_class_loses_bracket :
    (Glob.translateGlob "[!]a]".toList).map (·.levels) = .err .outside ∧
      (Glob.compile "[!]a]".toList).map (·.re.matches (render ["b".toList] false)) = .ok false ∧
      GlobSpec.matches "[!]a]".toList ["b".toList] false = true := by decide

/-- a positive bracket expression whose range contains `/` matches the separator -/
theorem class_range_crosses_separator :
    (Glob.translateGlob "a[+-9]b".toList).map (·.re.matches "/a/b".toList) = .ok true ∧
      GlobSpec.matches "a[+-9]b".toList ["a".toList, "b".toList] false = false := by decide

/-- a reversed range makes `match` raise `re.error` -/
theorem reversed_range_raises : Glob.gmatch "[b-a]".toList "x".toList = .err .reError := by decide

/-- the negation of the full statement -/
theorem glob_correct_counterexample :
    ¬ ∀ (pat : Str) (path : List Str) (isDir cs : Bool) (c : Glob.Compiled),
        Glob.translateGlob pat cs = .ok c →
        c.re.matches (render path isDir) = GlobSpec.matches pat path isDir cs := by
  intro h
  obtain ⟨h1, h2⟩ := star_omits_directories
  cases hc : Glob.translateGlob "*".toList true with
  | err e => rw [hc] at h1; cases h1
  | ok c =>
    rw [hc] at h1
    simp only [TR.map, TR.ok.injEq] at h1
    have := h "*".toList ["d".toList] true true c hc
    rw [h1, h2] at this
    cases this

/-- **Partial correctness.**  For every pattern that is `Regular` — no `.`/`..` component, every
`**` a whole component standing before all others, bracket expressions `goodTok` —, every
resource whose names are non-empty and contain neither `/` nor a newline, and a directory only
when the pattern ends in `/`: the compiled regex accepts the rendered path exactly when the
documented semantics says the resource matches (both case modes).  Each hypothesis excludes one
class of deviation witnessed above. -/
theorem glob_correct_partial (pat : Str) (path : List Str) (isDir cs : Bool)
    (hreg : Regular pat = true) (hpath : ∀ n ∈ path, GoodName n)
    (hdir : isDir = true → endsWithSlash pat = true)
    (c : Glob.Compiled) (hc : Glob.translateGlob pat cs = .ok c) :
    c.re.matches (render path isDir) = GlobSpec.matches pat path isDir cs :=
  glob_partial_core pat path isDir cs hreg hpath hdir c hc

/-- the hypotheses are satisfiable, non-trivially -/
example : Regular "**/[!x]*.p?/".toList = true := by decide
example : (Glob.translateGlob "**/[!x]*.p?/".toList).map
    (·.re.matches (render ["a".toList, "b.py".toList] true)) = .ok true := by decide
example : GoodName "b.py".toList := by
  refine ⟨by decide, by decide, by decide⟩

/-- **Depth pruning never loses a match** (for newline-free names and patterns without a
positive bracket range that contains `/`): when `_translate_glob` returns `levels = k`, every
resource the regex accepts lies at depth ≤ k — so `Globber` may pass `max_depth = k`. -/
theorem levels_sound (pat : Str) (path : List Str) (isDir cs : Bool)
    (hranges : noSlashRanges pat = true) (hpath : ∀ n ∈ path, GoodName n)
    (c : Glob.Compiled) (hc : Glob.translateGlob pat cs = .ok c) (k : Nat) (hk : c.levels = some k)
    (hm : c.re.matches (render path isDir) = true) : depth path ≤ k :=
  levels_core pat path isDir cs hranges hpath c hc k hk hm

example : noSlashRanges "a/[!b-d]*/?".toList = true := by decide
example : (Glob.translateGlob "a/*".toList).map (·.levels) = .ok (some 2) := by decide

/-- without the two hypotheses pruning does lose matches (findings multiline-dollar and
class-range-spans-slash): the resource `/a\n/b` (depth 2) is accepted by the pattern `a`
(`levels = 1`), and so is `/a/b` by `a[+-9]b`. -/
theorem levels_unsound_newline :
    (Glob.translateGlob "a".toList).map (fun c => (c.levels, c.re.matches (render ["a\n".toList, "b".toList] false)))
      = .ok (some 1, true) := by decide

theorem levels_unsound_slash_range :
    (Glob.translateGlob "a[+-9]b".toList).map (fun c => (c.levels, c.re.matches (render ["a".toList, "b".toList] false)))
      = .ok (some 1, true) := by decide

/-! ## the printer: the structured translation *is* the text the code builds

The correspondence compares the model's regex text with the string built by the real
translators character for character; these two theorems say that the AST the theorems above
reason about prints to exactly that text (and carries the same `levels` / `recursive`). -/

theorem wildcard_regex_text (pat : Str) (cs : Bool) (r : Regex) (h : Wild.compile pat cs = .ok r) :
    r.toPy = Wild.regexText pat cs :=
  wild_print pat cs r h

theorem glob_regex_text (pat : Str) (cs : Bool) (c : Glob.Compiled)
    (h : Glob.translateGlob pat cs = .ok c) :
    Glob.translateGlobText pat = .ok (c.levels, c.recursive, c.re.toPy) :=
  glob_print pat cs c h

example : (Glob.translateGlob "a/**/[!x]*.py".toList).map (fun c => String.ofList c.re.toPy)
    = .ok "(?ms)^/a/?.*/?/[^/x][^/]*\\.py$" := by decide

/-! ## the compiled-pattern cache (fs/lrucache.py, `_PATTERN_CACHE`) -/

/-- matching through the LRU cache gives the answer of matching without it and keeps the
cache valid — for every valid cache state, every capacity, every eviction. -/
theorem pattern_cache_transparent (cache : Glob.PatCache) (hv : Glob.PatCache.Valid cache)
    (pat path : Str) (cs : Bool) :
    (Glob.cachedMatch cache pat path cs).1 = Glob.gmatch pat path cs ∧
      Glob.PatCache.Valid (Glob.cachedMatch cache pat path cs).2 :=
  cache_transparent cache hv pat path cs

/-- the initial (empty) cache is valid, so by induction every reachable state is -/
theorem pattern_cache_initial (n : Nat) : Glob.PatCache.Valid (LRU.empty n) := empty_valid n

end Fs.C14
