/-
  HandleLaws — laws of the reference semantics with OPEN HANDLES (FsModel/Handles.lean):
  file objects kept open across other filesystem calls, several handles on one file, files
  removed / moved / overwritten while open.  Extends C01 (one reference semantics) and C16 (file
  objects behave like Python io files) to histories in which the two interleave.

  (0) `wf_init`, `wf_preserved`, `wf_run`, `wf_bool_iff`   the table invariant, every operation
  (a) `tree_calls_refine_ref`, `tree_history_refines_ref`, `session_refines_ref`, `item_refines_ref`,
      `handles_refine_ref`, `run_flatten`, `items_are_quiescent`   no handle kept open ⇒ exactly `Ref`;
      `openbin_is_session`, `writebytes_is_session`        `Ref`'s own steps are sessions
  (b) `handle_ops_frame`, `handle_ops_frame_bytes`          a file-object call touches its inode + its position
  (c) `tree_ops_keep_handles`, `tree_ops_keep_linked_bytes`, `unlinked_content_survives`,
      `remove_unlinks`, `removetree_unlinks`, `move_overwrite_unlinks`, `handle_follows_move`,
      `handle_follows_movedir`, `movedir_copy_unlinks`, `movedir_impls_agree_on_tree`,
      `movedir_impl_counterexample`
  (d) `same_path_same_inode`, `two_handles_coherent`, `written_is_read_by_the_other`
  (e) `open_is_ioref_open`, `handle_refines_ioref`, `handle_refines_ioref_interleaved`,
      `foreign_file_call_undisturbs`, `tree_call_undisturbs`
  (f) `closed_fs_handles`
-/
import FsModel.Handles
import FsProofs.Lemmas.HandleLemmas
import FsProofs.Lemmas.HandleWf
import FsProofs.Lemmas.HandleRun

namespace Fs.HandleLaws
open Fs Fs.File Fs.Handles Fs.HandleLemmas Fs.TreeLemmas

/-! ## (0) the invariant of the tables -/

/-- a fresh state over a well-formed directory tree is well-formed -/
theorem wf_init (t : Node) (hd : t.isDir = true) (hw : t.wf = true) : WF (HState.init t) :=
  ⟨hd, hw, by intro cs h; simp [HState.init] at h, by simp [HState.init], by intro h hh; simp [HState.init] at hh⟩

/-- EVERY operation — filesystem call, open, file-object call — preserves the invariant: the tree is
a well-formed directory, every linked inode names a file, no two inodes are linked at one path,
every handle's inode exists.  (Either `movedir` variant.) -/
theorem wf_preserved (impl : MovedirImpl) (s : HState) (op : HOp) (h : WF s) : WF (step impl s op).1 := by
  cases op with
  | tree op => exact wf_treeStep impl h op
  | open_ p m => exact wf_openStep h p m
  | file hid op => exact wf_fileStep h hid op

theorem wf_run (impl : MovedirImpl) (s : HState) (ops : List HOp) (h : WF s) : WF (run impl s ops).1 := by
  induction ops generalizing s with
  | nil => exact h
  | cons op ops ih => exact ih _ (wf_preserved impl s op h)

example : WF (run .rename (HState.init (.dir [("f".toList, .file [1])]))
    [.open_ "f".toList "r+".toList, .tree (.remove "f".toList), .file 0 (.write [2])]).1 :=
  wf_run _ _ _ (wf_init _ rfl rfl)

/-- the executable check the driver reports (`wf=`) is the invariant -/
theorem wf_bool_iff (s : HState) : s.wf = true ↔ WF s := by
  simp only [HState.wf, Bool.and_eq_true, List.all_eq_true, nodupB_iff, decide_eq_true_eq]
  constructor
  · rintro ⟨⟨⟨⟨h1, h2⟩, h3⟩, h4⟩, h5⟩
    refine ⟨h1, h2, ?_, h4, h5⟩
    intro cs hcs
    have := h3 _ hcs
    simp only [Bool.and_eq_true, Bool.not_eq_eq_eq_not, Bool.not_true, List.isEmpty_eq_false_iff] at this
    exact ⟨this.1, fileAt_isSome this.2⟩
  · intro h
    refine ⟨⟨⟨⟨h.root_dir, h.tree_wf⟩, ?_⟩, h.links_nodup⟩, h.handle_ino⟩
    intro l hl
    cases l with
    | unlinked b => rfl
    | linked cs =>
      obtain ⟨hne, b, hb⟩ := h.linked_file cs hl
      simp only [Bool.and_eq_true, Bool.not_eq_eq_eq_not, Bool.not_true, List.isEmpty_eq_false_iff]
      exact ⟨hne, by rw [fileAt_eq_some.2 hb]; rfl⟩

/-! ## (a) without handles kept open the model IS the reference -/

/-- a filesystem call: verdict, value and tree are `Ref.step`'s — in EVERY state, whatever handles
are open — and no handle is touched -/
theorem tree_calls_refine_ref (impl : MovedirImpl) (s : HState) (op : Ref.Op) :
    forget (treeStep impl s op).1 = (Ref.step (forget s) op).1 ∧
    (treeStep impl s op).2 = .tree (Ref.step (forget s) op).2 ∧
    (treeStep impl s op).1.handles = s.handles := ⟨rfl, rfl, rfl⟩

/-- a history of filesystem calls only is `Ref.run` (the C01 theorems are this special case) -/
theorem tree_history_refines_ref (impl : MovedirImpl) (s : HState) (ops : List Ref.Op) :
    forget (run impl s (ops.map .tree)).1 = (Ref.run (forget s) ops).1 ∧
    (run impl s (ops.map .tree)).2 = (Ref.run (forget s) ops).2.map (fun o => (.tree o, none)) := by
  induction ops generalizing s with
  | nil => exact ⟨rfl, rfl⟩
  | cons op ops ih =>
    obtain ⟨h1, h2⟩ := ih (treeStep impl s op).1
    simp only [List.map_cons, run, step, Ref.run]
    exact ⟨h1, by rw [h2]; rfl⟩

/-- ONE CLOSED SESSION — `open`, any file-object calls on the handle it returned, `close` — executed from
ANY state (whatever other handles exist) is, under `forget`, the reference's single call that opens,
uses and closes the file inside the call (`refSession`: `Ref.step openbin`, then the `IoRef` session on
the file's bytes, final bytes stored back): same tree, same open verdict, same result and `tell()` of
every call; and it leaves no handle open that was not open before. -/
theorem session_refines_ref (impl : MovedirImpl) (s : HState) (p mode : Str) (calls : List File.Op) :
    forget (run impl s ((Item.session p mode calls).flat s.handles.length)).1 =
        (refSession (forget s) p mode calls).1 ∧
    itemObs (.session p mode calls) (run impl s ((Item.session p mode calls).flat s.handles.length)).2 =
        some (.session (refSession (forget s) p mode calls).2) ∧
    (run impl s ((Item.session p mode calls).flat s.handles.length)).1.allClosed = s.allClosed := by
  rw [session_flat]
  have hbad : s.handles[s.handles.length]? = none := by simp
  simp only [run, step, forget]
  cases hr : Ref.step s.fs (.openbin p mode) with
  | mk fs' out =>
    cases out with
    | err e =>
      rw [openStep_err hr, run_file_calls_bad impl _ _ s hbad]
      have hrs : refSession s.fs p mode calls = (s.fs, .err e) := by simp only [refSession, hr]
      rw [hrs]
      exact ⟨rfl, rfl, rfl⟩
    | ok v =>
      cases hv : Ref.validate p with
      | err e =>
        rw [openStep_invalid hr hv, run_file_calls_bad impl _ _ s hbad]
        have hrs : refSession s.fs p mode calls = (s.fs, .err e) := by simp only [refSession, hr, hv]
        rw [hrs]
        exact ⟨rfl, rfl, rfl⟩
      | ok cs =>
        rw [openStep_ok hr hv]
        have hok : (Ref.step s.fs (.openbin p mode)).2 = .ok v := by rw [hr]
        obtain ⟨hne, b, hb⟩ := openbin_ok_file hv hok
        rw [hr] at hb
        obtain ⟨hi, _⟩ := intern_spec s.inodes cs
        have hfa : fileAt fs'.root cs = some b := fileAt_eq_some.2 hb
        obtain ⟨hfs, _, hhd, htr⟩ := run_file_calls_linked impl s.handles.length cs hne (calls ++ [File.Op.close])
          { fs := fs', inodes := (intern s.inodes cs).1, handles := s.handles ++ [newHandle s fs' cs mode] }
          (newHandle s fs' cs mode) b (by simp) hi hb
        simp only [refSession, hr, hv, runFrom_final]
        refine ⟨?_, ?_, ?_⟩
        · rw [hfs]; simp [newHandle, hfa]
        · rw [htr]
          simp only [itemObs, mapM_fileObs, Option.map_some, newHandle, hfa, Option.getD_some]
        · simp only [HState.allClosed]
          rw [hhd]
          simp only [allClosed_append_set, ioRun_close_closed, Bool.and_true]

/-- `refSession` is adequate (1): the reference's own `openbin` step IS the session without calls -/
theorem openbin_is_session (st : Ref.State) (p mode : Str) :
    (refSession st p mode []).1 = (Ref.step st (.openbin p mode)).1 ∧
    (refSession st p mode []).2.isOk = (Ref.step st (.openbin p mode)).2.isOk := by
  cases hr : Ref.step st (.openbin p mode) with
  | mk st' out =>
    cases out with
    | err e =>
      have hst : st' = st := by
        have := C05.failed_call_changes_nothing st (.openbin p mode) e (by rw [hr])
        rw [hr] at this; exact this
      subst hst
      simp only [refSession, hr]
      exact ⟨trivial, rfl⟩
    | ok v =>
      have hok : (Ref.step st (.openbin p mode)).2 = .ok v := by rw [hr]
      obtain ⟨cs, hv⟩ := validate_ok_of_step_ok (op := .openbin p mode) rfl hok
      obtain ⟨_, b, hb⟩ := openbin_ok_file hv hok
      rw [hr] at hb
      have hfa : fileAt st'.root cs = some b := fileAt_eq_some.2 hb
      have hfin : ∀ fl pos, (IoRef.runFrom fl ⟨b, pos, false⟩ ([] ++ [File.Op.close])).2 = b := by
        intro fl pos
        simp [IoRef.runFrom, IoRef.step, IoRef.isReadline0, IoRef.stepOpen]
      simp only [refSession, hr, hv, hfa, Option.getD_some, hfin, set_get_self cs _ _ hb]
      exact ⟨trivial, rfl⟩

/-- `refSession` is adequate (2): the reference's `writebytes` step IS the session `open(p, "w"); write(d); close()` -/
theorem writebytes_is_session (st : Ref.State) (p : Str) (d : Bytes) :
    (refSession st p ['w'] [.write d]).1 = (Ref.step st (.writebytes p d)).1 ∧
    (refSession st p ['w'] [.write d]).2.isOk = (Ref.step st (.writebytes p d)).2.isOk := by
  have hmode : Ref.parseBinMode ['w'] =
      some { reading := false, writing := true, create := true, truncate := true, exclusive := false, appending := false } := by
    decide
  have hfl : Mode.flags ['w'] =
      { reading := false, writing := true, appending := false, truncate := true, exclusive := false, create := true } := by
    decide
  have hfin : ∀ d : Bytes, (IoRef.runFrom (Mode.flags ['w']) ⟨[], 0, false⟩ [.write d, File.Op.close]).2 = d := by
    intro d
    cases d with
    | nil => simp [IoRef.runFrom, IoRef.step, IoRef.isReadline0, IoRef.stepOpen, hfl, IoRef.write1]
    | cons x xs => simp [IoRef.runFrom, IoRef.step, IoRef.isReadline0, IoRef.stepOpen, hfl, IoRef.write1, writeAt, zeros]
  by_cases hc : st.closed = true
  · simp [refSession, Ref.step, hc, Ref.fail, Res.isOk]
  · simp only [Bool.not_eq_true] at hc
    cases hv : Ref.validate p with
    | err e => simp [refSession, Ref.step, hc, hmode, Ref.Op.paths, mapM_one, hv, Ref.fail, Res.isOk]
    | ok cs =>
      have h1 : Ref.step st (.openbin p ['w']) = Ref.step1 st cs (.openbin p ['w']) := by
        simp [Ref.step, hc, hmode, Ref.Op.paths, mapM_one, hv]
      have h2 : Ref.step st (.writebytes p d) = Ref.step1 st cs (.writebytes p d) := by
        simp [Ref.step, hc, Ref.Op.paths, mapM_one, hv]
      rw [h2]
      simp only [refSession, h1, hv]
      by_cases hcs : cs = []
      · simp [Ref.step1, Ref.writeFile, hmode, hcs, Ref.fail, Res.isOk]
      · cases hpar : st.root.get (Ref.parentOf cs) with
        | none => simp [Ref.step1, Ref.writeFile, hmode, hcs, hpar, Ref.fail, Res.isOk]
        | some pn =>
          cases pn with
          | file _ => simp [Ref.step1, Ref.writeFile, hmode, hcs, hpar, Ref.fail, Res.isOk]
          | dir es =>
            have hset : ∀ x, (st.root.set cs (.file x)).get cs = some (.file x) :=
              fun x => get_set_same cs st.root _ es hcs hpar
            cases hg : st.root.get cs with
            | none =>
              simp [Ref.step1, Ref.writeFile, hmode, hcs, hpar, hg, Ref.upd, fileAt_eq_some.2 (hset []), hfin, set_set, Res.isOk]
            | some n =>
              cases n with
              | dir _ => simp [Ref.step1, Ref.writeFile, hmode, hcs, hpar, hg, Ref.fail, Res.isOk]
              | file b =>
                simp [Ref.step1, Ref.writeFile, hmode, hcs, hpar, hg, Ref.upd, fileAt_eq_some.2 (hset []), hfin, set_set, Res.isOk]

/-- one item (a filesystem call or a closed session) against the reference -/
theorem item_refines_ref (impl : MovedirImpl) (s : HState) (it : Item) :
    forget (run impl s (it.flat s.handles.length)).1 = (refItem (forget s) it).1 ∧
    itemObs it (run impl s (it.flat s.handles.length)).2 = some (refItem (forget s) it).2 ∧
    (run impl s (it.flat s.handles.length)).1.allClosed = s.allClosed := by
  cases it with
  | tree op => exact ⟨rfl, rfl, rfl⟩
  | session p mode calls => exact session_refines_ref impl s p mode calls

/-- **handles_refine_ref** — a history in which no handle outlives the call that opened it (filesystem
calls and closed sessions, in any number and order, from ANY state) behaves exactly like the handle-free
reference under `forget`: same final tree and closed flag, and per item the same verdict / value /
results and `tell()`s.  With no session at all this is `Ref.run` (`tree_history_refines_ref`), so the
C01 theorems are the special case. -/
theorem handles_refine_ref (impl : MovedirImpl) (s : HState) (its : List Item) :
    forget (runItems impl s its).1 = (refItems (forget s) its).1 ∧
    (its.zip (runItems impl s its).2).map (fun x => itemObs x.1 x.2) = (refItems (forget s) its).2.map some ∧
    (runItems impl s its).1.allClosed = s.allClosed := by
  induction its generalizing s with
  | nil => exact ⟨rfl, rfl, rfl⟩
  | cons it its ih =>
    obtain ⟨h1, h2, h3⟩ := item_refines_ref impl s it
    obtain ⟨i1, i2, i3⟩ := ih (run impl s (it.flat s.handles.length)).1
    simp only [runItems, refItems]
    refine ⟨?_, ?_, ?_⟩
    · rw [i1, h1]
    · simp only [List.zip_cons_cons, List.map_cons, h2, i2, h1]
    · rw [i3, h3]

/-- the flat handle-level history of a list of items (hids as `run` assigns them) -/
def flatten (impl : MovedirImpl) : HState → List Item → List HOp
  | _, [] => []
  | s, it :: its => it.flat s.handles.length ++ flatten impl (run impl s (it.flat s.handles.length)).1 its

theorem run_flatten (impl : MovedirImpl) (s : HState) (its : List Item) :
    (run impl s (flatten impl s its)).1 = (runItems impl s its).1 := by
  induction its generalizing s with
  | nil => rfl
  | cons it its ih => simp only [flatten, run_append, runItems, ih]

/-- a history made of items is one in which "every open is closed before the next filesystem call":
the decidable predicate `quiescent` holds of its flat form (from a state without open handles) -/
theorem items_are_quiescent (impl : MovedirImpl) (s : HState) (its : List Item) (h : s.allClosed = true) :
    quiescent impl s (flatten impl s its) = true := by
  have hend : (run impl s (flatten impl s its)).1.allClosed = true := by
    rw [run_flatten, (handles_refine_ref impl s its).2.2, h]
  simp only [quiescent, hend, Bool.and_true]
  clear hend
  induction its generalizing s with
  | nil => rfl
  | cons it its ih =>
    have h3 := (item_refines_ref impl s it).2.2
    have hrest := ih (run impl s (it.flat s.handles.length)).1 (by rw [h3]; exact h)
    simp only [flatten, quiescentAt_append, hrest, Bool.and_true]
    cases it with
    | tree op => simp only [Item.flat, quiescentAt, h, Bool.and_true]
    | session p mode calls =>
      rw [session_flat]
      simp only [quiescentAt, h, Bool.true_and]
      exact quiescentAt_files impl _ _ _

/-! ## (b) a file-object call touches its own inode's bytes and its own position, nothing else -/

/-- **handle_ops_frame** — exact footprint of one file-object call on handle `hid` (inode `h.ino`):
the filesystem's closed flag, every other handle (position, mode, closed flag), this handle's inode and
mode, and the link state of every inode are unchanged; when the inode is linked at `cs` the tree changes
by rewriting the bytes of the file at `cs` and in nothing else (same names, same kinds, same other
bytes); when it is unlinked the tree does not change at all. -/
theorem handle_ops_frame (s : HState) (hw : WF s) (hid : Nat) (op : File.Op) (h : Handle)
    (hh : s.handles[hid]? = some h) :
    (fileStep s hid op).1.fs.closed = s.fs.closed ∧
    (∀ j, j ≠ hid → (fileStep s hid op).1.handles[j]? = s.handles[j]?) ∧
    (∃ h', (fileStep s hid op).1.handles[hid]? = some h' ∧ h'.ino = h.ino ∧ h'.fl = h.fl) ∧
    (∀ cs, s.inodes[h.ino]? = some (.linked cs) →
        (fileStep s hid op).1.inodes = s.inodes ∧
        ∃ b', (fileStep s hid op).1.fs.root = s.fs.root.set cs (.file b')) ∧
    (∀ b, s.inodes[h.ino]? = some (.unlinked b) →
        (fileStep s hid op).1.fs = s.fs ∧
        ∃ b', (fileStep s hid op).1.inodes = s.inodes.set h.ino (.unlinked b')) := by
  have hok := hw.inoOk hh
  obtain ⟨hlt, _⟩ := List.getElem?_eq_some_iff.1 hh
  rw [fileStep_eq op hh hok]
  refine ⟨setInoBytes_closed _ _ _, ?_, ?_, ?_, ?_⟩
  · intro j hj
    simp only [List.getElem?_set_ne (Ne.symm hj)]
  · exact ⟨_, List.getElem?_set_self hlt, rfl, rfl⟩
  · intro cs hi
    obtain ⟨_, b, hb⟩ := hw.linked_file cs (List.mem_of_getElem? hi)
    rw [setInoBytes_linked _ hi hb]
    exact ⟨rfl, _, rfl⟩
  · intro b hi
    rw [setInoBytes_unlinked _ hi]
    exact ⟨rfl, _, rfl⟩

/-- … hence the bytes of every OTHER inode, and of every file the inode is not linked at, are unchanged -/
theorem handle_ops_frame_bytes (s : HState) (hw : WF s) (hid : Nat) (op : File.Op) (h : Handle)
    (hh : s.handles[hid]? = some h) :
    (∀ j, j ≠ h.ino → (fileStep s hid op).1.inoBytes j = s.inoBytes j) ∧
    (∀ q, s.inodes[h.ino]? ≠ some (.linked q) →
        fileAt (fileStep s hid op).1.fs.root q = fileAt s.fs.root q) := by
  obtain ⟨_, _, _, hlinked, hunlinked⟩ := handle_ops_frame s hw hid op h hh
  have hok := hw.inoOk hh
  cases hi : s.inodes[h.ino]? with
  | none => unfold inoOk at hok; simp [hi] at hok
  | some l =>
    cases l with
    | linked cs =>
      obtain ⟨hino, b', hroot⟩ := hlinked cs hi
      obtain ⟨hne, b, hb⟩ := hw.linked_file cs (List.mem_of_getElem? hi)
      constructor
      · intro j hj
        simp only [HState.inoBytes, hino, hroot]
        cases hl : s.inodes[j]? with
        | none => rfl
        | some l =>
          cases l with
          | unlinked x => rfl
          | linked q =>
            have hq : q ≠ cs := by
              intro e; subst e
              exact hj (links_unique hw.links_nodup hl hi)
            simp only [Link.bytes, fileAt_set_other b' hne hb hq]
      · intro q hq
        rw [hroot]
        exact fileAt_set_other b' hne hb (fun e => hq (by rw [e]))
    | unlinked b =>
      obtain ⟨hfs, b', hino⟩ := hunlinked b hi
      constructor
      · intro j hj
        simp only [HState.inoBytes, hino, hfs, List.getElem?_set_ne (Ne.symm hj)]
      · intro q _
        rw [hfs]

/-! ## (c) filesystem calls and the handles that are open while they run -/

/-- **tree_ops_keep_handles** — no filesystem call (of either `movedir` variant, succeeding or failing)
changes any handle: inode, mode, position, closed flag; nor the size of the inode table -/
theorem tree_ops_keep_handles (impl : MovedirImpl) (s : HState) (op : Ref.Op) :
    (treeStep impl s op).1.handles = s.handles ∧
    (treeStep impl s op).1.inodes.length = s.inodes.length := by
  refine ⟨rfl, ?_⟩
  simp only [treeStep]
  split
  · exact length_fixup _ _ _ _
  · rfl

/-- … and never changes the bytes of an inode that stays linked where it was, unless the call was asked
to touch that path (`C05.touched`: it writes / overwrites the file there, or the path is at or below a
moved / removed / copied-onto one) -/
theorem tree_ops_keep_linked_bytes (impl : MovedirImpl) (s : HState) (hw : WF s) (op : Ref.Op)
    (i : Nat) (q : List Name) (hi : s.inodes[i]? = some (.linked q))
    (hi' : (treeStep impl s op).1.inodes[i]? = some (.linked q)) (hn : ¬ C05.touched op q) :
    (treeStep impl s op).1.inoBytes i = s.inoBytes i := by
  obtain ⟨_, b, hb⟩ := hw.linked_file q (List.mem_of_getElem? hi)
  have hb' : (treeStep impl s op).1.fs.root.get q = some (.file b) := C05.frame_files s.fs op q b hb hn
  rw [inoBytes_linked hi' hb', inoBytes_linked hi hb]

/-- **unlinked_content_survives** — whatever a filesystem call takes out of the tree (`remove`,
`removetree`, an overwriting `move`, the source of a copying `movedir`), an inode that is unlinked after
the call holds exactly the bytes it had before it; so every handle on it still sees the old content at
its old position (`view` = what `IoRef` works on), and an inode that was already unlinked is never
touched by a filesystem call. -/
theorem unlinked_content_survives (impl : MovedirImpl) (s : HState) (op : Ref.Op) (i : Nat) (x : Bytes)
    (hi' : (treeStep impl s op).1.inodes[i]? = some (.unlinked x)) :
    x = s.inoBytes i ∧ (treeStep impl s op).1.inoBytes i = s.inoBytes i ∧
    ∀ hid h, s.handles[hid]? = some h → h.ino = i → view (treeStep impl s op).1 hid = view s hid := by
  have hx : x = s.inoBytes i := by
    cases hr : (Ref.step s.fs op).2 with
    | err e =>
      rw [treeStep_err hr] at hi'
      exact (inoBytes_unlinked hi').symm
    | ok v =>
      rw [treeStep_ok hr] at hi'
      rcases keeps_fixup impl s.fs.root op s.inodes i x hi' with h | ⟨q, hq, hx⟩
      · exact (inoBytes_unlinked h).symm
      · simp only [HState.inoBytes, hq, Link.bytes, hx]
  have hb : (treeStep impl s op).1.inoBytes i = s.inoBytes i := by rw [inoBytes_unlinked hi', hx]
  refine ⟨hx, hb, ?_⟩
  intro hid h hh hino
  have hh' : (treeStep impl s op).1.handles[hid]? = some h := hh
  simp only [view, hh, hh', hino, hb]

/-- a successful `remove` unlinks every inode linked at the path, with the bytes it had -/
theorem remove_unlinks (impl : MovedirImpl) (s : HState) (p : Str) (cs : List Name) (v : Ref.Val) (i : Nat)
    (hv : Ref.validate p = .ok cs) (hok : (Ref.step s.fs (.remove p)).2 = .ok v)
    (hi : s.inodes[i]? = some (.linked cs)) :
    (treeStep impl s (.remove p)).1.inodes[i]? = some (.unlinked (s.inoBytes i)) := by
  rw [treeStep_ok hok]
  simp only [fixup, hv, getElem?_unlinkUnder, hi, Option.map_some, isPrefix_self, if_true, HState.inoBytes, Link.bytes]

/-- a successful `removetree` unlinks every inode linked below the directory, with the bytes it had -/
theorem removetree_unlinks (impl : MovedirImpl) (s : HState) (p : Str) (cs r : List Name) (v : Ref.Val) (i : Nat)
    (hv : Ref.validate p = .ok cs) (hok : (Ref.step s.fs (.removetree p)).2 = .ok v)
    (hi : s.inodes[i]? = some (.linked (cs ++ r))) :
    (treeStep impl s (.removetree p)).1.inodes[i]? = some (.unlinked (s.inoBytes i)) := by
  rw [treeStep_ok hok]
  have hp : Ref.isPrefix cs (cs ++ r) = true := (isPrefix_iff _ _).2 (List.prefix_append _ _)
  simp only [fixup, hv, getElem?_unlinkUnder, hi, Option.map_some, hp, if_true, HState.inoBytes, Link.bytes]

/-- a successful `move` onto an existing file unlinks the inode that was linked at the destination -/
theorem move_overwrite_unlinks (impl : MovedirImpl) (s : HState) (sp dp : Str) (ow : Bool) (a b : List Name)
    (v : Ref.Val) (i : Nat) (ha : Ref.validate sp = .ok a) (hb : Ref.validate dp = .ok b) (hne : a ≠ b)
    (hok : (Ref.step s.fs (.move sp dp ow)).2 = .ok v) (hi : s.inodes[i]? = some (.linked b)) :
    (treeStep impl s (.move sp dp ow)).1.inodes[i]? = some (.unlinked (s.inoBytes i)) := by
  rw [treeStep_ok hok]
  simp only [fixup, ha, hb, hne, if_false, getElem?_relocate, getElem?_unlinkUnder, hi, Option.map_some,
    isPrefix_self, if_true, HState.inoBytes, Link.bytes]

/-- **handle_follows_move** — after a successful `move a → b` the inode that was linked at `a` is linked
at `b` with the same bytes, its handles are untouched, and whatever a handle on it does afterwards shows
at the NEW path: after any file-object call the file at `b` holds exactly the bytes `IoRef` computes,
and nothing is at `a`. -/
theorem handle_follows_move (impl : MovedirImpl) (s : HState) (hw : WF s) (sp dp : Str) (ow : Bool)
    (a b : List Name) (v : Ref.Val) (i : Nat)
    (ha : Ref.validate sp = .ok a) (hb : Ref.validate dp = .ok b) (hne : a ≠ b)
    (hok : (Ref.step s.fs (.move sp dp ow)).2 = .ok v) (hi : s.inodes[i]? = some (.linked a)) :
    (treeStep impl s (.move sp dp ow)).1.inodes[i]? = some (.linked b) ∧
    (treeStep impl s (.move sp dp ow)).1.inoBytes i = s.inoBytes i ∧
    ∀ hid h fop, s.handles[hid]? = some h → h.ino = i →
      (fileStep (treeStep impl s (.move sp dp ow)).1 hid fop).1.fs.root.get b =
        some (.file (IoRef.step h.fl ⟨s.inoBytes i, h.pos, h.closed⟩ fop).1.bytes) ∧
      (fileStep (treeStep impl s (.move sp dp ow)).1 hid fop).1.fs.root.get a = none := by
  obtain ⟨data, hga, hnd⟩ := move_ok_facts s.fs sp dp ow a b v ha hb hne hok
  obtain ⟨hpb, hpa, _⟩ := C05.move_post s.fs sp dp ow a b v ha hb hne hw.tree_wf hok
  have hnp : Ref.isPrefix b a = false := isPrefix_false_iff.2 (not_prefix_of_not_dir hga hne hnd)
  have hw' := wf_treeStep impl hw (.move sp dp ow)
  have hlink : (treeStep impl s (.move sp dp ow)).1.inodes[i]? = some (.linked b) := by
    rw [treeStep_ok hok]
    simp only [fixup, ha, hb, hne, if_false, getElem?_relocate, getElem?_unlinkUnder, hi, Option.map_some, hnp,
      Bool.false_eq_true, isPrefix_self, if_true, List.drop_length, List.append_nil]
  have hfb : (treeStep impl s (.move sp dp ow)).1.fs.root.get b = some (.file data) := by
    show (Ref.step s.fs (.move sp dp ow)).1.root.get b = _
    rw [hpb, hga]
  have hbytes : (treeStep impl s (.move sp dp ow)).1.inoBytes i = s.inoBytes i := by
    rw [inoBytes_linked hlink hfb, inoBytes_linked hi hga]
  refine ⟨hlink, hbytes, ?_⟩
  intro hid h fop hh hino
  subst hino
  have hh' : (treeStep impl s (.move sp dp ow)).1.handles[hid]? = some h := hh
  obtain ⟨hbne, _⟩ := hw'.linked_file b (List.mem_of_getElem? hlink)
  rw [fileStep_eq fop hh' (hw'.inoOk hh'), setInoBytes_linked _ hlink hfb, hbytes]
  refine ⟨get_set_file_self _ hbne hfb, ?_⟩
  exact get_set_leaf_none b _ data _ a hfb hpa

/-- **handle_follows_movedir** (the reference, `MovedirImpl.rename`) — a successful `movedir a → b` onto a
destination that does not exist re-links every inode below `a` at the same relative path below `b`, with
the same bytes: open files follow the directory (POSIX rename; `MemoryFS.movedir`). -/
theorem handle_follows_movedir (s : HState) (hw : WF s) (sp dp : Str) (cr : Bool) (a b r : List Name)
    (v : Ref.Val) (i : Nat) (ha : Ref.validate sp = .ok a) (hb : Ref.validate dp = .ok b) (hne : a ≠ b)
    (hnew : s.fs.root.get b = none) (hok : (Ref.step s.fs (.movedir sp dp cr)).2 = .ok v)
    (hi : s.inodes[i]? = some (.linked (a ++ r))) :
    (treeStep .rename s (.movedir sp dp cr)).1.inodes[i]? = some (.linked (b ++ r)) ∧
    (treeStep .rename s (.movedir sp dp cr)).1.inoBytes i = s.inoBytes i := by
  obtain ⟨_, x, hx⟩ := hw.linked_file _ (List.mem_of_getElem? hi)
  have hp : Ref.isPrefix a (a ++ r) = true := (isPrefix_iff _ _).2 (List.prefix_append _ _)
  have hlink : (treeStep .rename s (.movedir sp dp cr)).1.inodes[i]? = some (.linked (b ++ r)) := by
    rw [treeStep_ok hok]
    simp only [fixup, ha, hb, hne, if_false, hnew, getElem?_relocate, hi, Option.map_some, hp, if_true,
      List.drop_left]
  have hfb := C05.movedir_post s.fs sp dp cr a b r v x ha hb hne hw.tree_wf hok hx
  exact ⟨hlink, by rw [inoBytes_linked hlink hfb, inoBytes_linked hi hx]⟩

/-- **movedir_copy_unlinks** — in every other case (the destination exists: every backend merges by copying;
or the as-coded `fs/base.py` variant `MovedirImpl.copy`: OSFS, SubFS(OSFS), write archives) a successful
`movedir` UNLINKS the inodes below the source, with the bytes they had: handles on them go on working on
content no path names any more, and what they write is not seen at the destination. -/
theorem movedir_copy_unlinks (impl : MovedirImpl) (s : HState) (sp dp : Str) (cr : Bool) (a b r : List Name)
    (v : Ref.Val) (i : Nat) (ha : Ref.validate sp = .ok a) (hb : Ref.validate dp = .ok b) (hne : a ≠ b)
    (hcase : impl = .copy ∨ (s.fs.root.get b).isSome = true)
    (hok : (Ref.step s.fs (.movedir sp dp cr)).2 = .ok v)
    (hi : s.inodes[i]? = some (.linked (a ++ r))) :
    (treeStep impl s (.movedir sp dp cr)).1.inodes[i]? = some (.unlinked (s.inoBytes i)) := by
  have hp : Ref.isPrefix a (a ++ r) = true := (isPrefix_iff _ _).2 (List.prefix_append _ _)
  rw [treeStep_ok hok]
  have hfix : fixup impl s.fs.root (.movedir sp dp cr) s.inodes = unlinkUnder s.fs.root a s.inodes := by
    simp only [fixup, ha, hb, hne, if_false]
    rcases hcase with h | h
    · subst h; rfl
    · cases hg : s.fs.root.get b with
      | none => simp [hg] at h
      | some n => cases impl <;> rfl
  simp only [hfix, getElem?_unlinkUnder, hi, Option.map_some, hp, if_true, HState.inoBytes, Link.bytes]

/-- the two `movedir` variants never differ in verdict, value, tree or handle table — only in where the
inodes below the source of a `movedir` onto a new destination are linked afterwards -/
theorem movedir_impls_agree_on_tree (s : HState) (op : Ref.Op) :
    forget (treeStep .rename s op).1 = forget (treeStep .copy s op).1 ∧
    (treeStep .rename s op).2 = (treeStep .copy s op).2 ∧
    (treeStep .rename s op).1.handles = (treeStep .copy s op).1.handles := ⟨rfl, rfl, rfl⟩

/-- … and that difference IS observable once a handle is open below the source: after
`open d/f "r+"; movedir d → e (create)`, a write through the handle is read back at `e/f` under the
reference (rename) and is not under the as-coded base-class variant (copy).  This is the one place where
the backends genuinely differ (finding `C01/handles/movedir-new-destination-copies-open-files`). -/
theorem movedir_impl_counterexample :
    let s0 := HState.init (.dir [("d".toList, .dir [("f".toList, .file [120])])])
    let hist : List HOp := [.open_ "d/f".toList "r+".toList, .tree (.movedir "d".toList "e".toList true),
      .file 0 (.seek 0 2), .file 0 (.write [33]), .tree (.readbytes "e/f".toList)]
    ((run .rename s0 hist).2.map (·.1)).getLast? = some (.tree (.ok (.bytes [120, 33]))) ∧
    ((run .copy s0 hist).2.map (·.1)).getLast? = some (.tree (.ok (.bytes [120]))) := by
  decide

/-! ## (d) two handles on one file -/

/-- **same_path_same_inode** — two `open`s of one path (the second right after the first) return two
handles on ONE inode: the second `open` finds the table entry the first one made -/
theorem same_path_same_inode (s : HState) (p m1 m2 : Str) (cs : List Name) (fs1 fs2 : Ref.State) (v1 v2 : Ref.Val)
    (hv : Ref.validate p = .ok cs)
    (h1 : Ref.step s.fs (.openbin p m1) = (fs1, .ok v1))
    (h2 : Ref.step fs1 (.openbin p m2) = (fs2, .ok v2)) :
    ∃ ha hb, (openStep (openStep s p m1).1 p m2).1.handles = s.handles ++ [ha, hb] ∧ ha.ino = hb.ino := by
  rw [openStep_ok h1 hv]
  rw [openStep_ok (s := { fs := fs1, inodes := (intern s.inodes cs).1, handles := s.handles ++ [newHandle s fs1 cs m1] })
    h2 hv]
  refine ⟨newHandle s fs1 cs m1,
    newHandle { fs := fs1, inodes := (intern s.inodes cs).1, handles := s.handles ++ [newHandle s fs1 cs m1] } fs2 cs m2,
    by simp only [List.append_assoc, List.cons_append, List.nil_append], ?_⟩
  simp only [newHandle, intern_twice]

/-- **two_handles_coherent** — two handles on one inode see each other's writes at once (MemoryFS has no
buffering; OSFS with `buffering=0`): after ANY call through `hid1`, what `IoRef` works on for `hid2` is the
new bytes of the inode — all of them, at the same offsets — with `hid2`'s own position and closed flag
untouched. -/
theorem two_handles_coherent (s : HState) (hw : WF s) (hid1 hid2 : Nat) (h1 h2 : Handle) (op : File.Op)
    (hh1 : s.handles[hid1]? = some h1) (hh2 : s.handles[hid2]? = some h2) (hne : hid2 ≠ hid1)
    (hino : h2.ino = h1.ino) :
    view (fileStep s hid1 op).1 hid2 =
      some ⟨(IoRef.step h1.fl ⟨s.inoBytes h1.ino, h1.pos, h1.closed⟩ op).1.bytes, h2.pos, h2.closed⟩ ∧
    view (fileStep s hid1 op).1 hid1 = some (IoRef.step h1.fl ⟨s.inoBytes h1.ino, h1.pos, h1.closed⟩ op).1 := by
  obtain ⟨_, hothers, _, _, _⟩ := handle_ops_frame s hw hid1 op h1 hh1
  obtain ⟨_, _, hb⟩ := fileStep_view hw op hh1
  refine ⟨?_, view_fileStep_self hw op hh1⟩
  simp only [view, hothers hid2 hne, hh2, hino, hb]

/-- **written_is_read_by_the_other** — concretely: `hid1` writes `d` (non-empty; at its position, or at the
end in append mode); `hid2`, another open readable handle on the same inode, seeks to that offset and
reads `len d` bytes: it gets exactly `d`. -/
theorem written_is_read_by_the_other (s : HState) (hw : WF s) (hid1 hid2 : Nat) (h1 h2 : Handle) (d : Bytes)
    (hh1 : s.handles[hid1]? = some h1) (hh2 : s.handles[hid2]? = some h2) (hne : hid2 ≠ hid1)
    (hino : h2.ino = h1.ino) (hd : d ≠ [])
    (ho1 : h1.closed = false) (hw1 : h1.fl.writing = true) (ho2 : h2.closed = false) (hr2 : h2.fl.reading = true)
    (p : Nat) (hp : p = if h1.fl.appending then (s.inoBytes h1.ino).length else h1.pos) :
    (fileStep (fileStep (fileStep s hid1 (.write d)).1 hid2 (.seek (Int.ofNat p) 0)).1 hid2
        (.read (some (Int.ofNat d.length)))).2 = .file (.bytes d) := by
  have hw1' := wf_fileStep hw hid1 (.write d)
  -- the inode after the write
  obtain ⟨_, _, hbb⟩ := fileStep_view hw (.write d) hh1
  rw [ho1, ioref_write_bytes _ _ _ _ hw1 hd, ← hp] at hbb
  obtain ⟨_, hothers, _, _, _⟩ := handle_ops_frame s hw hid1 (.write d) h1 hh1
  have hh2' : (fileStep s hid1 (.write d)).1.handles[hid2]? = some h2 := by rw [hothers hid2 hne]; exact hh2
  rw [← hino] at hbb
  -- the seek
  obtain ⟨_, hseek_h, hseek_b⟩ := fileStep_view hw1' (.seek (Int.ofNat p) 0) hh2'
  have hw2 := wf_fileStep hw1' hid2 (.seek (Int.ofNat p) 0)
  rw [ho2, ioref_seek_set] at hseek_h hseek_b
  -- the read
  obtain ⟨hout, _, _⟩ := fileStep_view hw2 (.read (some (Int.ofNat d.length))) hseek_h
  rw [hout]
  simp only [hseek_b, hbb]
  rw [ioref_read_some _ _ _ _ hr2, writeAt_read_back _ _ _ hd]

/-! ## (e) each handle is an `IoRef` file on its inode's content -/

/-- `open` starts the handle exactly where `IoRef.openFile` does: on the file's bytes after the open (empty
when created or truncated), at position 0, or at the end in append mode -/
theorem open_is_ioref_open (s : HState) (p mode : Str) (cs : List Name) (fs' : Ref.State) (v : Ref.Val)
    (hv : Ref.validate p = .ok cs) (hr : Ref.step s.fs (.openbin p mode) = (fs', .ok v)) :
    (openStep s p mode).2 = .opened s.handles.length ∧
    ∃ b, fileAt fs'.root cs = some b ∧
      view (openStep s p mode).1 s.handles.length =
        some ⟨b, if (Mode.flags mode).appending then b.length else 0, false⟩ := by
  have hok : (Ref.step s.fs (.openbin p mode)).2 = .ok v := by rw [hr]
  obtain ⟨_, b, hb⟩ := openbin_ok_file hv hok
  rw [hr] at hb
  obtain ⟨hi, _⟩ := intern_spec s.inodes cs
  rw [openStep_ok hr hv]
  refine ⟨rfl, b, fileAt_eq_some.2 hb, ?_⟩
  have hbytes := inoBytes_linked
    (s := ⟨fs', (intern s.inodes cs).fst, s.handles ++ [newHandle s fs' cs mode]⟩) hi hb
  simp only [view, List.getElem?_concat_length]
  simp only [newHandle, fileAt_eq_some.2 hb, Option.getD_some, Option.some.injEq, IoState.mk.injEq, and_true]
  exact hbytes

/-- **handle_refines_ioref** — any sequence of calls on one handle, with nothing else in between, IS the
`IoRef` session on (the inode's bytes, the handle's position, its closed flag): every result and
`tell()` equal, and at the end the inode holds `IoRef`'s final bytes.  (Linked or unlinked inode; any
other handles may exist.)  With `memfile_refines_ioref` (C16) and the correspondence this is the
per-handle statement of C16 inside a filesystem history. -/
theorem handle_refines_ioref (impl : MovedirImpl) (hid : Nat) (calls : List File.Op) (s : HState) (hw : WF s)
    (h : Handle) (hh : s.handles[hid]? = some h) :
    (run impl s (calls.map (.file hid))).2 =
        (IoRef.runFrom h.fl ⟨s.inoBytes h.ino, h.pos, h.closed⟩ calls).1.map fileObs ∧
    view (run impl s (calls.map (.file hid))).1 hid = some (ioRun h.fl ⟨s.inoBytes h.ino, h.pos, h.closed⟩ calls) ∧
    (run impl s (calls.map (.file hid))).1.inoBytes h.ino =
        (IoRef.runFrom h.fl ⟨s.inoBytes h.ino, h.pos, h.closed⟩ calls).2 := by
  induction calls generalizing s h with
  | nil =>
    refine ⟨rfl, ?_, rfl⟩
    simp only [List.map_nil, run, ioRun, view, hh]
  | cons op rest ih =>
    obtain ⟨hout, hh', hb⟩ := fileStep_view hw op hh
    have hw' := wf_fileStep hw hid op
    obtain ⟨i1, i2, i3⟩ := ih (fileStep s hid op).1 hw' _ hh'
    simp only [hb] at i1 i2 i3
    have heta : ∀ st : IoState, (⟨st.bytes, st.pos, st.closed⟩ : IoState) = st := fun _ => rfl
    simp only [heta] at i1 i2 i3
    simp only [List.map_cons, run, step, IoRef.runFrom, ioRun]
    refine ⟨?_, i2, i3⟩
    rw [i1, hout]
    simp only [fileObs, obsTell, subject, tellOf, hh', IoRef.obsTell]

/-- the calls of a history that are addressed to handle `hid` -/
def callsOn (hid : Nat) : List HOp → List File.Op
  | [] => []
  | .file h op :: ops => if h = hid then op :: callsOn hid ops else callsOn hid ops
  | _ :: ops => callsOn hid ops

/-- … and their entries in the trace of the history -/
def traceOn (hid : Nat) : List HOp → List (HOut × Option Nat) → List (HOut × Option Nat)
  | .file h _ :: ops, x :: xs => if h = hid then x :: traceOn hid ops xs else traceOn hid ops xs
  | _ :: ops, _ :: xs => traceOn hid ops xs
  | _, _ => []

/-- executing `ops` from `s`: every call that is NOT a file-object call on `hid` leaves what the handle works
on — (inode bytes, position, closed flag) — as it was.  (Decidable, by execution.  Sufficient conditions:
`foreign_file_call_undisturbs`, `tree_call_undisturbs`, `unlinked_content_survives`, `handle_follows_move`.) -/
def undisturbed (impl : MovedirImpl) (hid : Nat) : HState → List HOp → Bool
  | _, [] => true
  | s, op :: ops =>
    (match op with
     | .file h _ => h == hid || decide (view (step impl s op).1 hid = view s hid)
     | _ => decide (view (step impl s op).1 hid = view s hid))
    && undisturbed impl hid (step impl s op).1 ops

/-- **handle_refines_ioref_interleaved** — inside ANY history (other handles working, filesystem calls,
opens), as long as nothing but its own calls changes what the handle works on, the handle is an `IoRef` file:
the results and `tell()`s of its calls are those of the `IoRef` session made of exactly these calls, started
on what it saw at the beginning, and at the end it sees `IoRef`'s final state. -/
theorem handle_refines_ioref_interleaved (impl : MovedirImpl) (hid : Nat) (ops : List HOp) (s : HState) (hw : WF s)
    (h : Handle) (hh : s.handles[hid]? = some h) (hu : undisturbed impl hid s ops = true) :
    traceOn hid ops (run impl s ops).2 =
        (IoRef.runFrom h.fl ⟨s.inoBytes h.ino, h.pos, h.closed⟩ (callsOn hid ops)).1.map fileObs ∧
    view (run impl s ops).1 hid = some (ioRun h.fl ⟨s.inoBytes h.ino, h.pos, h.closed⟩ (callsOn hid ops)) := by
  induction ops generalizing s h with
  | nil => exact ⟨rfl, by simp only [run, callsOn, ioRun, view, hh]⟩
  | cons op ops ih =>
    have hw' := wf_preserved impl s op hw
    simp only [undisturbed, Bool.and_eq_true] at hu
    obtain ⟨hu1, hu2⟩ := hu
    -- a step that keeps the view: the induction hypothesis applies with the same IoRef state
    have keep : view (step impl s op).1 hid = view s hid →
        callsOn hid (op :: ops) = callsOn hid ops →
        traceOn hid (op :: ops) (run impl s (op :: ops)).2 = traceOn hid ops (run impl (step impl s op).1 ops).2 →
        traceOn hid (op :: ops) (run impl s (op :: ops)).2 =
            (IoRef.runFrom h.fl ⟨s.inoBytes h.ino, h.pos, h.closed⟩ (callsOn hid (op :: ops))).1.map fileObs ∧
        view (run impl s (op :: ops)).1 hid =
            some (ioRun h.fl ⟨s.inoBytes h.ino, h.pos, h.closed⟩ (callsOn hid (op :: ops))) := by
      intro hv hc ht
      obtain ⟨h', hh', hfl, _⟩ := step_keeps_handle_static impl hw op hh
      have hio : (⟨(step impl s op).1.inoBytes h'.ino, h'.pos, h'.closed⟩ : IoState) =
          ⟨s.inoBytes h.ino, h.pos, h.closed⟩ := by
        simpa only [view, hh', hh, Option.some.injEq] using hv
      obtain ⟨i1, i2⟩ := ih (step impl s op).1 hw' h' hh' hu2
      rw [hio, hfl] at i1 i2
      rw [ht, hc]
      exact ⟨i1, i2⟩
    cases op with
    | tree top =>
      exact keep (by simpa using hu1) rfl rfl
    | open_ p m =>
      exact keep (by simpa using hu1) rfl rfl
    | file hid2 fop =>
      by_cases he : hid2 = hid
      · subst he
        obtain ⟨hout, hh', hb⟩ := fileStep_view hw fop hh
        obtain ⟨i1, i2⟩ := ih (fileStep s hid2 fop).1 hw' _ hh' hu2
        simp only [hb] at i1 i2
        have heta : ∀ st : IoState, (⟨st.bytes, st.pos, st.closed⟩ : IoState) = st := fun _ => rfl
        simp only [heta] at i1 i2
        simp only [run, step, traceOn, callsOn, if_true, IoRef.runFrom, ioRun]
        refine ⟨?_, i2⟩
        rw [i1, hout]
        simp only [List.map_cons, fileObs, obsTell, subject, tellOf, hh', IoRef.obsTell]
      · have hv : view (step impl s (.file hid2 fop)).1 hid = view s hid := by
          simp only [Bool.or_eq_true, beq_iff_eq, decide_eq_true_eq] at hu1
          rcases hu1 with h1 | h1
          · exact absurd h1 he
          · exact h1
        exact keep hv (by simp only [callsOn, he, if_false]) (by simp only [run, traceOn, he, if_false])

/-- a file-object call on a handle of ANOTHER inode disturbs nothing: sufficient condition for `undisturbed` -/
theorem foreign_file_call_undisturbs (s : HState) (hw : WF s) (hid hid2 : Nat) (h h2 : Handle) (fop : File.Op)
    (hh : s.handles[hid]? = some h) (hh2 : s.handles[hid2]? = some h2) (hino : h.ino ≠ h2.ino) :
    view (fileStep s hid2 fop).1 hid = view s hid := by
  have hne : hid ≠ hid2 := by intro e; subst e; rw [hh] at hh2; cases hh2; exact hino rfl
  obtain ⟨_, hothers, _, _, _⟩ := handle_ops_frame s hw hid2 fop h2 hh2
  obtain ⟨hbytes, _⟩ := handle_ops_frame_bytes s hw hid2 fop h2 hh2
  simp only [view, hothers hid hne, hh, hbytes h.ino hino]

/-- a filesystem call that does not touch the path the handle's inode is linked at (and leaves it linked
there) disturbs nothing: sufficient condition for `undisturbed` -/
theorem tree_call_undisturbs (impl : MovedirImpl) (s : HState) (hw : WF s) (op : Ref.Op) (hid : Nat) (h : Handle)
    (q : List Name) (hh : s.handles[hid]? = some h) (hi : s.inodes[h.ino]? = some (.linked q))
    (hi' : (treeStep impl s op).1.inodes[h.ino]? = some (.linked q)) (hn : ¬ C05.touched op q) :
    view (treeStep impl s op).1 hid = view s hid := by
  have hh' : (treeStep impl s op).1.handles[hid]? = some h := hh
  simp only [view, hh, hh', tree_ops_keep_linked_bytes impl s hw op h.ino q hi hi' hn]

/-! ## (f) closing the FILESYSTEM while handles are open -/

/-- **closed_fs_handles** — what the code does (MemoryFS.close drops its root, OSFS.close does nothing to open
descriptors, TempFS / write archives remove their directory): after `close()` every filesystem call and every
`open` raises `FilesystemClosed` and changes nothing, but the handles opened before go on working exactly as
if the filesystem were open — every file-object call gives the same result and leaves the same handles and
inode contents; only the filesystem's closed flag differs.  Judged against C18 ("after the first close no
call can read or change stored data … every data or metadata access raises FilesystemClosed", quantified
over the public methods of the FILESYSTEM): a file object is a separate resource with its own `close()`; no
backend tracks or invalidates it — stated as it is, not a finding. -/
theorem closed_fs_handles (impl : MovedirImpl) (s : HState) :
    (treeStep impl s .close).1 = { s with fs := { s.fs with closed := true } } ∧
    (∀ (c : HState), c.fs.closed = true →
      (∀ op, op ≠ Ref.Op.close → treeStep impl c op = (c, .tree (.err .FilesystemClosed))) ∧
      (∀ p m, openStep c p m = (c, .openErr .FilesystemClosed))) ∧
    (∀ hid fop,
      (fileStep { s with fs := { s.fs with closed := true } } hid fop).2 = (fileStep s hid fop).2 ∧
      (fileStep { s with fs := { s.fs with closed := true } } hid fop).1 =
        { (fileStep s hid fop).1 with fs := { (fileStep s hid fop).1.fs with closed := true } }) := by
  refine ⟨rfl, ?_, ?_⟩
  · intro c hc
    constructor
    · intro op hop
      have := C01.closed_is_final c.fs op hc hop
      exact treeStep_err (impl := impl) (by rw [this])
    · intro p m
      have := C01.closed_is_final c.fs (.openbin p m) hc (by simp)
      exact openStep_err this
  · intro hid fop
    have hset : ∀ i b, ({ s with fs := { s.fs with closed := true } } : HState).setInoBytes i b =
        { (s.setInoBytes i b) with fs := { (s.setInoBytes i b).fs with closed := true } } := by
      intro i b
      simp only [HState.setInoBytes]
      cases hi : s.inodes[i]? with
      | none => rfl
      | some l =>
        cases l with
        | unlinked x => rfl
        | linked cs =>
          simp only
          cases fileAt s.fs.root cs <;> rfl
    have hbytes : ∀ i, ({ s with fs := { s.fs with closed := true } } : HState).inoBytes i = s.inoBytes i :=
      fun _ => rfl
    simp only [fileStep]
    cases hh : s.handles[hid]? with
    | none => exact ⟨rfl, rfl⟩
    | some h =>
      simp only [hbytes, hset]
      by_cases hc : (IoRef.step h.fl ⟨s.inoBytes h.ino, h.pos, h.closed⟩ fop).1.bytes = s.inoBytes h.ino
      · simp only [hc, if_true]; exact ⟨trivial, trivial⟩
      · simp only [hc, if_false]; exact ⟨trivial, trivial⟩

/-! ## examples — the hypotheses are satisfiable; the laws on concrete histories -/

/-- a removed file is still read through its handle; a new file of the same name is another inode -/
example : ((run .rename (HState.init (.dir [("f".toList, .file [97, 98])]))
      [.open_ "f".toList "r+".toList, .tree (.remove "f".toList), .tree (.writebytes "f".toList [122]),
       .file 0 (.read none), .tree (.readbytes "f".toList)]).2.map (·.1)) =
    [.opened 0, .tree (.ok .unit), .tree (.ok .unit), .file (.bytes [97, 98]), .tree (.ok (.bytes [122]))] := by
  decide

/-- a moved file keeps its handle: the write shows at the new path -/
example : ((run .rename (HState.init (.dir [("f".toList, .file [97])]))
      [.open_ "f".toList "a".toList, .tree (.move "f".toList "g".toList false), .file 0 (.write [33]),
       .tree (.readbytes "g".toList), .tree (.exists_ "f".toList)]).2.map (·.1)) =
    [.opened 0, .tree (.ok .unit), .file (.nat 1), .tree (.ok (.bytes [97, 33])), .tree (.ok (.bool false))] := by
  decide

/-- two appending handles interleave at the current end; `writebytes` truncates the inode both are on -/
example : ((run .rename (HState.init (.dir [("u".toList, .file [48])]))
      [.open_ "u".toList "a".toList, .open_ "u".toList "a+".toList, .file 0 (.write [49]), .file 1 (.write [50]),
       .file 0 (.write [51]), .tree (.readbytes "u".toList), .tree (.writebytes "u".toList []), .file 1 (.seek 0 0),
       .file 1 (.read none)]).2) =
    [(.opened 0, some 1), (.opened 1, some 1), (.file (.nat 1), some 2), (.file (.nat 1), some 3),
     (.file (.nat 1), some 4), (.tree (.ok (.bytes [48, 49, 50, 51])), none), (.tree (.ok .unit), none),
     (.file (.nat 0), some 0), (.file (.bytes []), some 0)] := by
  decide

/-- `quiescent` separates histories that keep a handle open across a filesystem call from those that do not;
the executable invariant holds along both -/
example : quiescent .rename (HState.init (.dir [("f".toList, .file [97])]))
      [.open_ "f".toList "r".toList, .file 0 (.read none), .file 0 .close, .tree (.remove "f".toList)] = true ∧
    quiescent .rename (HState.init (.dir [("f".toList, .file [97])]))
      [.open_ "f".toList "r".toList, .tree (.remove "f".toList), .file 0 (.read none), .file 0 .close] = false ∧
    (run .rename (HState.init (.dir [("f".toList, .file [97])]))
      [.open_ "f".toList "r".toList, .tree (.remove "f".toList), .file 0 (.read none)]).1.wf = true := by
  decide

/-- after the FILESYSTEM is closed: calls raise FilesystemClosed, the handle goes on working -/
example : ((run .rename (HState.init (.dir [("z".toList, .file [122])]))
      [.open_ "z".toList "r+".toList, .tree .close, .file 0 (.seek 0 2), .file 0 (.write [87]), .file 0 (.seek 0 0),
       .file 0 (.read none), .tree (.readbytes "z".toList), .open_ "z".toList "r".toList]).2.map (·.1)) =
    [.opened 0, .tree (.ok .unit), .file (.nat 1), .file (.nat 1), .file (.nat 0), .file (.bytes [122, 87]),
     .tree (.err .FilesystemClosed), .openErr .FilesystemClosed] := by
  decide

end Fs.HandleLaws
