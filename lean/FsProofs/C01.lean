/-
  C01 — all writable filesystems implement one reference semantics.
  Theorems about the reference itself and about the induction the step-wise correspondence
  relies on.  (Backends are tied to `Ref.step` by the correspondence; `MemModel`/`BaseModel`
  refinements are separate files.)
-/
import FsModel.Ref
import FsProofs.Lemmas.TreeLemmas

namespace Fs.C01
open Fs Fs.Ref Fs.TreeLemmas

/-- the root of the reference state is always a directory -/
theorem ref_root_is_dir (s : State) (op : Op) (h : s.root.isDir = true) :
    (step s op).1.root.isDir = true := by
  cases step_case s op with
  | close _ h' => rw [h']; exact h
  | fail e _ h' => rw [h']; exact h
  | one p cs _ _ _ h' => rw [h']; exact eff1_isDir (eff1 s cs op) h
  | two p q a b _ _ _ _ h' => rw [h']; exact eff2_isDir (eff2 s a b op) h

/-- every reference step preserves well-formedness of the tree (legal, unique names) -/
theorem ref_wf_preserved (s : State) (op : Op) (hd : s.root.isDir = true) (h : s.root.wf = true) :
    (step s op).1.root.wf = true := by
  have _ := hd
  cases step_case s op with
  | close _ h' => rw [h']; exact h
  | fail e _ h' => rw [h']; exact h
  | one p cs _ _ hv h' => rw [h']; exact eff1_wf (eff1 s cs op) (validate_clean p cs hv) h
  | two p q a b _ _ _ hv h' => rw [h']; exact eff2_wf (eff2 s a b op) (validate_clean q b hv) h

/-- hence every reachable reference state is a well-formed tree -/
theorem ref_wf_reachable (ops : List Op) :
    (run State.empty ops).1.root.wf = true ∧ (run State.empty ops).1.root.isDir = true := by
  have key : ∀ (ops : List Op) (s : State), s.root.wf = true → s.root.isDir = true →
      (run s ops).1.root.wf = true ∧ (run s ops).1.root.isDir = true := by
    intro ops
    induction ops with
    | nil => intro s h1 h2; exact ⟨h1, h2⟩
    | cons op ops ih =>
      intro s h1 h2
      simp only [run]
      exact ih _ (ref_wf_preserved s op h2 h1) (ref_root_is_dir s op h2)
  exact key ops State.empty rfl rfl

theorem run_append (s : State) (a b : List Op) :
    run s (a ++ b) = ((run (run s a).1 b).1, (run s a).2 ++ (run (run s a).1 b).2) := by
  induction a generalizing s with
  | nil => simp [run]
  | cons op ops ih => simp [run, ih]

/-- The induction behind the step-wise correspondence: if an implementation (any state type
`σ`, observed through `abs`) agrees with `Ref.step` on every single step from every state —
same output, same resulting tree — then it agrees on every history. -/
theorem stepwise_agreement_lifts {σ : Type} (impl : σ → Op → σ × Out) (abs : σ → State)
    (hstep : ∀ x op, abs (impl x op).1 = (step (abs x) op).1 ∧ (impl x op).2 = (step (abs x) op).2)
    (x : σ) (ops : List Op) :
    let runImpl : σ → List Op → σ × List Out := fun x ops =>
      ops.foldl (fun acc op => let r := impl acc.1 op; (r.1, acc.2 ++ [r.2])) (x, [])
    abs (runImpl x ops).1 = (run (abs x) ops).1 ∧ (runImpl x ops).2 = (run (abs x) ops).2 := by
  intro runImpl
  have key : ∀ (ops : List Op) (x : σ) (outs : List Out),
      abs (ops.foldl (fun acc op => let r := impl acc.1 op; (r.1, acc.2 ++ [r.2])) (x, outs)).1
        = (run (abs x) ops).1 ∧
      (ops.foldl (fun acc op => let r := impl acc.1 op; (r.1, acc.2 ++ [r.2])) (x, outs)).2
        = outs ++ (run (abs x) ops).2 := by
    intro ops
    induction ops with
    | nil => intro x outs; simp [run]
    | cons op ops ih =>
      intro x outs
      simp only [List.foldl_cons, run]
      obtain ⟨h1, h2⟩ := ih (impl x op).1 (outs ++ [(impl x op).2])
      rw [h1, h2, (hstep x op).1, (hstep x op).2]
      simp
  have := key ops x []
  simpa using this

/-- after `close`, nothing changes and every operation reports FilesystemClosed -/
theorem closed_is_final (s : State) (op : Op) (h : s.closed = true) (hop : op ≠ .close) :
    step s op = (s, .err .FilesystemClosed) := by
  cases op <;> first
    | exact absurd rfl hop
    | simp [step, h, Ref.fail]

example : (run State.empty [.makedir "a".toList false, .writebytes "a/f".toList [1, 2], .readbytes "/a/./f".toList]).2
    = [.ok .unit, .ok .unit, .ok (.bytes [1, 2])] := by decide

end Fs.C01
