import FsModel.Ref
namespace Fs.C01
theorem placeholder_true : True := trivial
end Fs.C01
