/-
  WildGenEq — the definitions regenerated from `$VERIF_REPO/fs/wildcard.py` on every run
  (`FsModel/Generated/WildGen.lean`, written by `harness/extract/puregen.py`) against the hand model
  `FsModel/Wild.lean` that the C14 theorems are stated over.

  * `translate_eq`: the generated `_translate` (an index-driven `while` with a nested scanning loop) never
    raises, terminates within its fuel hints, and returns exactly the regex text of `Wild.translateText`
    (for every string and both values of `case_sensitive`; `str.lower` in its ASCII model).
  * `match`/`imatch`/`match_any`/`imatch_any`/`get_matcher` (modulo the LRU cache, see puregen.py): equal to
    the hand model `Wild.wmatch` / `Wild.matchAny` / `Wild.getMatcher` (`match_eq_wmatch`, …): first through the
    text and the model of Python's parser (`wmatchViaText`), then by `RegexRoundTrip.wildcard_text_parses`
    (parse of the emitted text = the AST the hand matchers use, proved for every pattern).
  Results of generated code are `Res`; `toTR` (FsModel/PyRe.lean) maps them to the `TR` of the hand model.
-/
import FsModel.Generated.WildGen
import FsProofs.Lemmas.WildGenLemmas
import FsProofs.RegexRoundTrip

namespace Fs.WildGenEq
open Fs Fs.PyStr Fs.PyRe Fs.PyStrLemmas Fs.PathGenLemmas Fs.WildGenLemmas

/-- exactly the functions the hand model transcribes were found and translated -/
theorem coverage : WildGen.translated =
    ["_translate", "get_matcher", "imatch", "imatch_any", "match", "match_any"] := by decide +kernel

theorem nothing_refused : WildGen.refused = [] := by decide +kernel

theorem translate_eq (p : Str) (cs : Bool) :
    WildGen._translate p cs = .ok (Wild.translateText p cs) := by
  simp only [WildGen._translate, Wild.translateText]
  generalize hp : (if (!cs) = true then Wild.lowerStr p else p) = pat
  have hp' : (if cs = true then p else Wild.lowerStr p) = pat := by cases cs <;> simpa using hp
  rw [hp']
  generalize hW : pyWhile _ _ _ = w
  have key : ∃ i' res', w = .done (i', res') ∧ res'.flatten = Wild.textGo pat 0 := by
    have := pyWhile_wstep' pat _ ?_ _ 0 [] ?_ w hW
    · simpa using this
    · intro s
      obtain ⟨i, res⟩ := s
      simp only [wstep]
      by_cases hi : i < pat.length
      · obtain ⟨c, hc⟩ := getElem?_of_lt pat i hi
        have hidx : pyStrIdx pat (Int.ofNat i) = .ok [c] := by rw [pyStrIdx_ofNat, hc]
        simp only [hi, decide_true, if_true, hidx, hc]
        by_cases h1 : c = '*'
        · simp [h1]
        · by_cases h2 : c = '?'
          · simp [h2]
          · by_cases h3 : c = '['
            · subst h3
              have e1 : ((['['] : Str) == ['*']) = false := by decide
              have e2 : ((['['] : Str) == ['?']) = false := by decide
              have e3 : ((['['] : Str) == ['[']) = true := by decide
              simp only [e1, e2, e3, Bool.false_eq_true, if_false, if_true, h1, h2]
              clear hW
              split
              · next e' heq => have := (bumpR_eq pat '!' (i + 1)).symm.trans heq; cases this
              · next j1 heq =>
                have := (bumpR_eq pat '!' (i + 1)).symm.trans heq
                cases this
                split
                · next e' heq => have := (bumpR_eq pat ']' _).symm.trans heq; cases this
                · next j2 heq =>
                  have := (bumpR_eq pat ']' _).symm.trans heq
                  cases this
                  rw [pyWhile_scanStep pat _ ?_ _ _ (by omega)]
                  · have hb : scanTo pat (bump pat ']' (bump pat '!' (i + 1))) = bracketEnd pat (i + 1) := rfl
                    simp only [hb]
                    by_cases hk : bracketEnd pat (i + 1) < pat.length
                    · have hge : ¬ bracketEnd pat (i + 1) ≥ pat.length := by omega
                      simp only [hk, hge, decide_false, if_true, Bool.false_eq_true, if_false]
                      obtain ⟨c, r, hst⟩ := pyReplace_ne_nil _ (stuff_ne_nil pat (i + 1) hk)
                      simp only [Wild.classText, escBackslash_eq, hst, pyStrIdx_cons_zero]
                      by_cases hc1 : c = '!'
                      · subst hc1; simp
                      · by_cases hc2 : c = '^'
                        · subst hc2; simp
                        · simp [hc1, hc2]
                    · have hge : bracketEnd pat (i + 1) ≥ pat.length := by omega
                      simp [hk, hge]
                  · intro j
                    simp only [scanStep, pyStrIdx_ofNat]
                    by_cases hj : j < pat.length
                    · obtain ⟨d, hd⟩ := getElem?_of_lt pat j hj
                      by_cases hdd : d = ']' <;> simp [hj, hd, hdd]
                    · have : pat[j]? = none := List.getElem?_eq_none (by omega)
                      simp [hj, this]
            · simp [h1, h2, h3, pyReEscape]
      · have : pat[i]? = none := List.getElem?_eq_none (by omega)
        simp [hi, this]
    · omega
  obtain ⟨i', res', rfl, e⟩ := key
  simp [pyJoinS_nil, e]


theorem match_res (p n : Str) (cs : Bool) :
    toTR (match WildGen._translate p cs with
      | .err e' => Res.err e'
      | .ok t1' =>
        match pyReCompile ((['(', '?', 'm', 's', ')'] ++ t1') ++ ['\\', 'Z']) (!cs) with
        | .err e' => Res.err e'
        | .ok t2' => Res.ok (pyReMatch t2' n)) = wmatchViaText p n cs := by
  rw [translate_eq]
  simp only [wmatchViaText, Wild.regexText]
  have h := toTR_pyReCompile ((['(', '?', 'm', 's', ')'] ++ Wild.translateText p cs) ++ ['\\', 'Z']) (!cs)
  have e : "(?ms)".toList ++ Wild.translateText p cs ++ "\\Z".toList =
      (['(', '?', 'm', 's', ')'] ++ Wild.translateText p cs) ++ ['\\', 'Z'] := rfl
  rw [e, ← h]
  cases pyReCompile ((['(', '?', 'm', 's', ')'] ++ Wild.translateText p cs) ++ ['\\', 'Z']) (!cs) <;> rfl

theorem match_eq (p n : Str) : toTR (WildGen.match p n) = wmatchViaText p n true :=
  match_res p n true

theorem imatch_eq (p n : Str) : toTR (WildGen.imatch p n) = wmatchViaText p n false :=
  match_res p n false

theorem match_any_eq (ps : List Str) (n : Str) :
    toTR (WildGen.match_any ps n) = matchAnyViaText ps n true := by
  simp only [WildGen.match_any, matchAnyViaText]
  cases hps : ps.isEmpty with
  | true => rfl
  | false =>
    simp only [Bool.false_eq_true, if_false]
    rw [pyFor_anyStep (fun p => WildGen.match p n) _ ?_]
    · refine (congrArg toTR (any_final _ ps)).trans ?_
      rw [toTR_anyRes]
      congr 1; funext p; exact match_eq p n
    · intro p s
      simp only [anyStep]
      cases WildGen.match p n with
      | err e => rfl
      | ok b => cases b <;> rfl

theorem imatch_any_eq (ps : List Str) (n : Str) :
    toTR (WildGen.imatch_any ps n) = matchAnyViaText ps n false := by
  simp only [WildGen.imatch_any, matchAnyViaText]
  cases hps : ps.isEmpty with
  | true => rfl
  | false =>
    simp only [Bool.false_eq_true, if_false]
    rw [pyFor_anyStep (fun p => WildGen.imatch p n) _ ?_]
    · refine (congrArg toTR (any_final _ ps)).trans ?_
      rw [toTR_anyRes]
      congr 1; funext p; exact imatch_eq p n
    · intro p s
      simp only [anyStep]
      cases WildGen.imatch p n with
      | err e => rfl
      | ok b => cases b <;> rfl

/-- the callable `get_matcher` returns, applied to a name -/
theorem get_matcher_eq (ps : List Str) (cs : Bool) (n : Str) :
    toTR (WildGen.get_matcher ps cs n) = matchAnyViaText ps n cs := by
  simp only [WildGen.get_matcher]
  cases hps : ps.isEmpty with
  | true => simp [matchAnyViaText, hps, toTR]
  | false =>
    cases cs with
    | true => simpa using match_any_eq ps n
    | false => simpa using imatch_any_eq ps n

/-! ### against the AST model, unconditionally

`FsProofs/RegexRoundTrip.wildcard_text_parses` proves that parsing the emitted text gives the hand model's AST
(formerly the validated hypothesis `<parse-eq>`), so the generated matchers ARE the hand matchers of C14. -/

theorem match_eq_wmatch (p n : Str) : toTR (WildGen.match p n) = Wild.wmatch p n true := by
  rw [match_eq, RegexRoundTrip.wmatchViaText_eq]

theorem imatch_eq_wmatch (p n : Str) : toTR (WildGen.imatch p n) = Wild.wmatch p n false := by
  rw [imatch_eq, RegexRoundTrip.wmatchViaText_eq]

theorem match_any_eq_matchAny (ps : List Str) (n : Str) :
    toTR (WildGen.match_any ps n) = Wild.matchAny ps n true := by
  rw [match_any_eq, RegexRoundTrip.matchAnyViaText_eq]

theorem imatch_any_eq_matchAny (ps : List Str) (n : Str) :
    toTR (WildGen.imatch_any ps n) = Wild.matchAny ps n false := by
  rw [imatch_any_eq, RegexRoundTrip.matchAnyViaText_eq]

/-- the callable `get_matcher` returns is `Wild.getMatcher` -/
theorem get_matcher_eq_getMatcher (ps : List Str) (cs : Bool) (n : Str) :
    toTR (WildGen.get_matcher ps cs n) = Wild.getMatcher ps cs n := by
  rw [get_matcher_eq, RegexRoundTrip.matchAnyViaText_eq]
  rfl

end Fs.WildGenEq
