/-
  BaseWalkLaws — the three bulk operations of `fs/base.py` AS CODED (`FsModel.BaseWalk`: depth-first walker
  + `remove`/`removedir`; `copy_structure` + breadth-first file walk + `copy_file_internal`; `move_dir`),
  run over the primitive calls of ANY filesystem that refines the reference semantics, compute the reference's
  tree-level result (`Ref.step` on `removetree` / `copydir` / `movedir`: sub-tree deletion, `Ref.mergeEnts`).

  This replaces the MODELLING DECISION of `FsModel.Mem` / `FsModel.Os` ("`copy_dir` is the tree-level merge")
  and the `_partial` exclusion of the walkers in `FsProofs/MultiRefines` by theorems.

  Layout: (a) `removetree`, (b) `copydir`, (c) `movedir` — each first over the primitives of `Ref.step` itself
  (`prim_of_ref`, exact), then over any `F` with `RefinesRef F`; (d) corollaries for MemoryFS / OSFS as coded
  and for the single-layer MultiFS.
  Entry ORDER: the real copier creates the directories of a level first and copies the files afterwards, the
  reference's merge inserts in source order — so the trees agree up to the order of entries inside directories
  (`ObsEq`: at every path the same type and bytes), and the exact order is given separately
  (`copydir_operational_exact`: `BaseWalkSpec.opMerge`).
-/
import FsProofs.Lemmas.BaseWalkAdm
import FsProofs.Lemmas.BaseWalkMulti
import FsProofs.C06
import FsProofs.OsRefines
import FsProofs.MultiRefines

namespace Fs.BaseWalkLaws
open Fs Fs.Path Fs.Ref Fs.BaseWalk Fs.TreeLemmas Fs.WrapLemmas Fs.BaseWalkPrim Fs.BaseWalkRm Fs.BaseWalkSpec
  Fs.BaseWalkCopyDir Fs.BaseWalkMoveDir Fs.BaseWalkLift Fs.BaseWalkAdm Fs.BaseWalkMerge Fs.BaseWalkSim Fs.WrapRefines
  Fs.MemRefines

/-- the primitive interface of the reference semantics itself -/
abbrev prim_of_ref : Prim State := primOfStep Ref.step

/-- an open filesystem whose tree is a well-formed directory (what `RefinesRef` speaks about) -/
abbrev Good := GoodS

/-- the number of resources at and below the (validated) path — the fuel the walkers need is one more -/
def treeSize (root : Node) (p : Str) : Nat :=
  match validate p with
  | .ok cs => subCount root cs
  | .err _ => 0

/-! ## trees up to entry order -/

theorem obsEq_refl (a : Node) : ObsEq a a := fun _ => rfl

theorem obsEq_symm {a b : Node} (h : ObsEq a b) : ObsEq b a := fun q => (h q).symm

theorem obsEq_trans {a b c : Node} (h1 : ObsEq a b) (h2 : ObsEq b c) : ObsEq a c := fun q => (h1 q).trans (h2 q)

theorem shallow_of_isDir {n : Node} (h : n.isDir = true) : shallow n = none := by
  cases n with
  | dir _ => rfl
  | file _ => cases h

/-- replacing the node at `b` (below an existing directory, or the root) by trees that show the same -/
theorem obsEq_setAt {R : Node} {b : List Name} {x y : Node}
    (hp : b = [] ∨ ∃ ps, R.get (parentOf b) = some (.dir ps)) (h : ObsEq x y) :
    ObsEq (setAt R b x) (setAt R b y) := by
  intro q
  rcases hp with rfl | ⟨ps, hps⟩
  · simpa [setAt] using h q
  · by_cases hb : b = []
    · subst hb; simpa [setAt] using h q
    rw [setAt_ne hb, setAt_ne hb]
    by_cases h1 : b <+: q
    · obtain ⟨r, rfl⟩ := h1
      rw [get_set_append b r R x ps hb hps, get_set_append b r R y ps hb hps]
      exact h r
    · by_cases h2 : q <+: b
      · -- a proper ancestor of `b`: a directory on both sides
        have hne : q ≠ b := fun e => h1 (e ▸ List.prefix_refl _)
        obtain ⟨c, r, rfl⟩ := prefix_ne_split h2 hne
        have hqp : q <+: parentOf (q ++ c :: r) := by
          have : q ++ c :: r = (q ++ (c :: r).dropLast) ++ [(c :: r).getLast (by simp)] := by
            rw [List.append_assoc, List.dropLast_concat_getLast]
          rw [this]; simp [parentOf]
        obtain ⟨u, hu⟩ := get_prefix_exists hqp hps
        have hud : u.isDir = true := by
          by_cases e : q = parentOf (q ++ c :: r)
          · rw [← e, hu] at hps; cases hps; rfl
          · obtain ⟨es, hes⟩ := get_proper_prefix_dir hqp e hps
            rw [hu] at hes; cases hes; rfl
        have key : ∀ z, ((R.set (q ++ c :: r) z).get q).map shallow = some none := by
          intro z
          rw [set_sub hu (c :: r) (by simp), get_setAt_self hu]
          have : (u.set (c :: r) z).isDir = true := (TreeLemmas.isDir_set _ _ _).trans hud
          simp [shallow_of_isDir this]
        rw [key x, key y]
      · rw [get_set_diverge _ _ _ _ h1 h2, get_set_diverge _ _ _ _ h1 h2]

/-- deleting at `a` changes what a path shows only at and below `a` -/
theorem shallow_get_del (a q : List Name) (t : Node) (h : ¬ a <+: q) :
    ((t.del a).get q).map shallow = (t.get q).map shallow := by
  fun_induction Node.del a t generalizing q with
  | case1 n => exact absurd List.nil_prefix h
  | case2 c es =>
    cases q with
    | nil => simp [Node.get, shallow]
    | cons c' qs =>
      have hne : c' ≠ c := by
        intro e; subst e; exact h (List.cons_prefix_cons.2 ⟨rfl, List.nil_prefix⟩)
      simp only [Node.get, lookup_erase_other _ _ _ hne]
  | case3 c d cs es ch hl ih =>
    cases q with
    | nil => simp [Node.get, shallow]
    | cons c' qs =>
      by_cases hne : c' = c
      · subst hne
        simp only [Node.get, lookup_put_same, hl]
        exact ih qs (fun hh => h (List.cons_prefix_cons.2 ⟨rfl, hh⟩))
      · simp only [Node.get, lookup_put_other _ _ _ _ hne]
  | case4 c d cs es hl => rfl
  | case5 c cs b => rfl

/-- deleting the same path in two well-formed trees that show the same -/
theorem obsEq_del {X Y : Node} (a : List Name) (hne : a ≠ []) (hX : X.wf = true) (hY : Y.wf = true)
    (h : ObsEq X Y) : ObsEq (X.del a) (Y.del a) := by
  intro q
  by_cases hq : a <+: q
  · obtain ⟨r, rfl⟩ := hq
    rw [get_del_append a r X hne hX, get_del_append a r Y hne hY]
  · rw [shallow_get_del a q X hq, shallow_get_del a q Y hq]
    exact h q

/-! ## (a) `FS.removetree` -/

/-- **removetree_operational_eq (over the reference's own primitives).**  On a good state, for EVERY path
(since /repo 433aea4 `FS.removetree` validates its argument: the hypothesis "no NUL in the path" this theorem
used to carry is gone, `removetree_nul_repaired`) and with fuel for the sub-tree (`treeSize + 1` suffices; fuel
bounds the nesting depth of the depth-first walk): `validatepath`, then the walker with its `remove` / `removedir`
calls, IS the reference's `removetree` — the same outcome (error class included: `InvalidCharsInPath`,
`IllegalBackReference`, `ResourceNotFound`, `DirectoryExpected`), the same tree (the sub-tree is gone; the root is
kept, empty). -/
theorem removetree_operational_eq_ref (fuel : Nat) (s : State) (G : Good s) (p : Str)
    (hf : treeSize s.root p < fuel) :
    removetree prim_of_ref fuel s p = Ref.step s (.removetree p) := by
  cases hv : validate p with
  | ok cs => exact removetree_ref_valid fuel s G p cs hv (by simpa [treeSize, hv] using hf)
  | err e => exact removetree_ref_invalid fuel s G p e hv

/-- **removetree_operational_eq.**  Over the primitives of ANY filesystem `F` that refines the reference:
the same verdict as `Ref.removetree`; on success the same state; on failure nothing has changed and the
class is admissible (`Ref.adm`). -/
theorem removetree_operational_eq (F : FS State) (hF : RefinesRef F) (fuel : Nat) (s : State) (G : Good s)
    (p : Str) (hf : treeSize s.root p < fuel) :
    let r := removetree (primOfStep F) fuel s p
    let r0 := Ref.step s (.removetree p)
    r.2.isOk = r0.2.isOk ∧ (r0.2.isOk = true → r = r0) ∧ (∀ e, r.2 = .err e → e ∈ adm s (.removetree p) ∧ r.1 = s) := by
  intro r r0
  have hL := (lift_removetree F hF fuel s G p).1
  rw [show removetree PR fuel s p = r0 from removetree_operational_eq_ref fuel s G p hf] at hL
  rcases lift_cases hL with ⟨s1, v, hr0, hr⟩ | ⟨s1, e0, e', hr0, hr⟩
  · have hr' : r = (s1, .ok v) := hr
    refine ⟨(by rw [hr', hr0]), (fun _ => by rw [hr', hr0]), fun e he => ?_⟩
    rw [hr'] at he; cases he
  · have hr' : r = (s1, .err e') := hr
    have hs1 : s1 = s := by
      have := C06.failed_step_unchanged s (.removetree p) e0 (by rw [show Ref.step s (.removetree p) = r0 from rfl, hr0])
      rw [show Ref.step s (.removetree p) = r0 from rfl, hr0] at this; exact this
    subst hs1
    refine ⟨(by rw [hr', hr0]; rfl), (fun h => by rw [hr0] at h; cases h), fun e he => ?_⟩
    rw [hr'] at he
    simp only [Res.err.injEq] at he
    subst he
    refine ⟨?_, by rw [hr']⟩
    -- the class: `validatepath` (the reference's), or the first `scandir` of the walker
    cases hv : validate p with
    | err ev =>
      have hvF : (primOfStep F).validatepath s1 p = (s1, .err ev) := by
        show validateOf F s1 p = _
        rw [validateOf_exact F hF s1 G p, validateOf_ref s1 G.opn, hv]
      have : r = (s1, .err ev) := by
        show removetree (primOfStep F) fuel s1 p = _
        simp [removetree, hvF]
      rw [hr'] at this
      simp only [Prod.mk.injEq, Res.err.injEq, true_and] at this
      subst this
      rw [QueryLemmas.adm_one s1 _ p G.opn rfl (by intro x m e; cases e), hv]; simp
    | ok cs =>
      have hcs : CleanN cs := TreeLemmas.validate_clean p cs hv
      obtain ⟨f, rfl⟩ : ∃ f, fuel = f + 1 := ⟨fuel - 1, by omega⟩
      -- the reference fails: nothing, or a file, at the path
      have hr0' : r0 = step1 s1 cs (.removetree p) := by
        show Ref.step s1 (.removetree p) = _
        rw [QueryLemmas.step_one s1 _ p G.opn rfl (by intro x m e; cases e), hv]
      have hlist : (Ref.step s1 (.listdir (absOf cs))).2 = .err e0 := by
        rw [ref_one s1 G.opn _ hcs rfl (by intro x m e; cases e)]
        rw [hr0'] at hr0
        by_cases hne : cs = []
        · subst hne; simp [step1, upd] at hr0
        · rcases hg : s1.root.get cs with _ | ⟨fb | es⟩
          · simp only [step1, hne, if_false, hg, fail, Prod.mk.injEq, Res.err.injEq, true_and] at hr0 ⊢
            exact hr0
          · simp only [step1, hne, if_false, hg, fail, Prod.mk.injEq, Res.err.injEq, true_and] at hr0 ⊢
            exact hr0
          · simp [step1, hne, hg, upd] at hr0
      obtain ⟨e'', hf'', ha⟩ := lift_call_adm F hF s1 G (.listdir (absOf cs)) rfl e0 hlist
      have : r = (s1, .err e'') := by
        show removetree (primOfStep F) (f + 1) s1 p = _
        simp [removetree, validate_F F hF s1 G p cs hv, removetreeBody, rmWalk, prim_scandir, scanOf, hf'']
      rw [hr'] at this
      simp only [Prod.mk.injEq, Res.err.injEq, true_and] at this
      subst this
      rw [QueryLemmas.adm_one s1 _ _ G.opn rfl (by intro x m e; cases e), validate_absOf hcs] at ha
      rw [QueryLemmas.adm_one s1 _ p G.opn rfl (by intro x m e; cases e), hv]
      simpa [adm1] using ha


/-! ## (b) `FS.copydir` -/

/-- the three ways a `copydir` between non-overlapping, validated paths can go (operational over the
reference's primitives `rP` against the reference `r0`) -/
inductive CopyCase (s : State) (a b : List Name) (create : Bool) (rP r0 : State × Out) : Prop
  /-- rejected by a check / by `makedirs`: the same class, nothing changed -/
  | rejected (e : Err) (h0 : r0 = (s, .err e)) (hl : e ≠ .OperationFailed) (hP : rP = r0)
  /-- merged: `root1` is the tree after `makedirs(dst)` (`s.root`, or with the destination path created),
  the reference puts `mergeEnts es ds0` at `b`, the walkers put `opMerge` there -/
  | merged (root1 : Node) (es ds0 m : Ents) (D2 : Node)
      (h0 : r0 = ({ s with root := setAt root1 b (.dir m) }, .ok .unit))
      (hP : rP = ({ root := setAt root1 b D2, closed := false }, .ok .unit))
      (hm : mergeEnts es ds0 = some m) (hop : opMerge (.dir es) (.dir ds0) = some D2) (hobs : ObsEq D2 (.dir m))
      (hD2 : ∃ d2, D2 = .dir d2 ∧ entsWf d2 = true)
      (hga : s.root.get a = some (.dir es)) (hga1 : root1.get a = some (.dir es))
      (hgb1 : root1.get b = some (.dir ds0)) (hw1 : root1.wf = true) (hd1 : root1.isDir = true)
      (hr1 : (root1 = s.root) ∨ (root1 = mkdirs [] b s.root ∧ ds0 = [] ∧ s.root.get b = none ∧ create = true ∧
        blockedByFile s.root [] b = false))
  /-- a file/directory conflict inside: the reference's loose marker; the walkers fail mid-way, in the
  structure walk (`DirectoryExpected`) if a source directory meets a destination file, else in the file walk
  (`FileExpected`); only the sub-tree at `b` has changed -/
  | conflict (es ds : Ents) (D' : Node) (c : Err)
      (h0 : r0 = (s, .err .OperationFailed))
      (hP : rP = ({ root := setAt s.root b D', closed := false }, .err c))
      (hga : s.root.get a = some (.dir es)) (hgb : s.root.get b = some (.dir ds)) (hm : mergeEnts es ds = none)
      (hc : (c = .DirectoryExpected ∧ recNode .struct (.dir es) (.dir ds) = none) ∨
            (c = .FileExpected ∧ ∃ D1, recNode .struct (.dir es) (.dir ds) = some D1 ∧ recNode .files (.dir es) D1 = none))

theorem opMerge_eq {S D D1 D2 : Node} (h1 : recNode .struct S D = some D1) (h2 : recNode .files S D1 = some D2) :
    opMerge S D = some D2 := by simp [opMerge, h1, h2]

/-- from the outcome of the walks to the comparison with the merge -/
theorem copyCase_of_outcome (s : State) (a b : List Name) (create : Bool) (rP r0 : State × Out)
    (root1 : Node) (es ds0 : Ents) (hout : CopyOutcome root1 b es ds0 rP)
    (hwe : entsWf es = true) (hwd : entsWf ds0 = true)
    (h0 : r0 = match mergeEnts es ds0 with
      | none => (s, .err .OperationFailed)
      | some m => ({ s with root := setAt root1 b (.dir m) }, .ok .unit))
    (hga : s.root.get a = some (.dir es)) (hga1 : root1.get a = some (.dir es))
    (hgb1 : root1.get b = some (.dir ds0)) (hw1 : root1.wf = true) (hd1 : root1.isDir = true)
    (hr1 : (root1 = s.root) ∨ (root1 = mkdirs [] b s.root ∧ ds0 = [] ∧ s.root.get b = none ∧ create = true ∧
        blockedByFile s.root [] b = false))
    (hnone : mergeEnts es ds0 = none → root1 = s.root) :
    CopyCase s a b create rP r0 := by
  unfold CopyOutcome at hout
  cases hm : mergeEnts es ds0 with
  | some m =>
    obtain ⟨m1, m2, h1, h2, _, hw2, hobs⟩ := merge_some es ds0 m hwe hwd hm
    rw [h1] at hout
    simp only at hout
    rw [h2] at hout
    rw [hm] at h0
    exact .merged root1 es ds0 m (.dir m2) h0 hout hm (opMerge_eq h1 h2) hobs ⟨m2, rfl, hw2⟩ hga hga1 hgb1 hw1 hd1 hr1
  | none =>
    rw [hm] at h0
    have hr := hnone hm
    subst hr
    rcases merge_none es ds0 hwe hwd hm with h1 | ⟨m1, h1, h2⟩
    · rw [h1] at hout
      obtain ⟨D', hD'⟩ := hout
      exact .conflict es ds0 D' _ h0 hD' hga hgb1 hm (Or.inl ⟨rfl, h1⟩)
    · rw [h1] at hout
      simp only at hout
      rw [h2] at hout
      obtain ⟨D', hD'⟩ := hout
      exact .conflict es ds0 D' _ h0 hD' hga hgb1 hm (Or.inr ⟨rfl, _, h1, h2⟩)

/-- **the case analysis behind (b)** -/
theorem copydir_ref_cases (fuel : Nat) (s : State) (G : Good s) (p q : Str) (create : Bool) (a b : List Name)
    (hva : validate p = .ok a) (hvb : validate q = .ok b) (inc : Inc a b) (hf : subCount s.root a < fuel) :
    CopyCase s a b create (copydir prim_of_ref fuel s p q create) (Ref.step s (.copydir p q create)) := by
  have ha : CleanN a := TreeLemmas.validate_clean p a hva
  have hb : CleanN b := TreeLemmas.validate_clean q b hvb
  have hr0 : Ref.step s (.copydir p q create) = step2 s a b (.copydir p q create) := by
    rw [QueryLemmas.step_two s _ p q G.opn rfl, hva, hvb]
  have hip : isPrefix a b = false := by
    rw [Bool.eq_false_iff]; intro h; exact inc.1 ((TreeLemmas.isPrefix_iff a b).1 h)
  by_cases hyes : (∃ es, s.root.get a = some (.dir es)) ∧
      ((∃ ds, s.root.get b = some (.dir ds)) ∨ (s.root.get b = none ∧ create = true ∧ blockedByFile s.root [] b = false))
  · obtain ⟨⟨es, hga⟩, hdst⟩ := hyes
    have hwe : entsWf es = true := entsWf_of_get G.wf hga
    have hcnt : (Node.dir es).count < fuel := by simpa [subCount, hga] using hf
    rcases hdst with ⟨ds, hgb⟩ | ⟨hgb, hcr, hbl⟩
    · refine copyCase_of_outcome s a b create _ _ s.root es ds
        (copydir_existing fuel s G p q create a b hva hvb inc es ds hga hgb hcnt) hwe (entsWf_of_get G.wf hgb) ?_
        hga hga hgb G.wf G.dir (Or.inl rfl) (fun _ => rfl)
      rw [hr0]
      simp only [step2, hip, Bool.false_eq_true, if_false, hgb, hga]
      cases mergeEnts es ds <;> simp [fail, upd]
    · subst hcr
      have hbne : b ≠ [] := by rintro rfl; exact inc.2 List.nil_prefix
      have hga1 : (mkdirs [] b s.root).get a = some (.dir es) := mkdirs_keep b [] a _ _ hga (by simpa using inc.1)
      have hgb1 : (mkdirs [] b s.root).get b = some (.dir []) :=
        MemLemmas.mkdirs_new_get s (absOf b) b G.opn (validate_absOf hb) G.dir hbl hgb
      have hmf : mergeEnts es [] = some es := by
        have := MemLemmas.mergeEnts_fresh es [] hwe (fun _ _ => rfl)
        simpa using this
      refine copyCase_of_outcome s a b true _ _ (mkdirs [] b s.root) es []
        (copydir_created fuel s G p q a b hva hvb inc es hga hgb hbl hcnt) hwe (by simp [entsWf]) ?_
        hga hga1 hgb1 (TreeLemmas.mkdirs_wf _ _ _ (by simpa [CleanN] using hb) G.wf)
        (by rw [TreeLemmas.isDir_mkdirs]; exact G.dir) (Or.inr ⟨rfl, rfl, hgb, rfl, hbl⟩) (fun h => by rw [hmf] at h; cases h)
      rw [hr0, hmf]
      simp [step2, hip, hgb, hga, hbl, upd, setAt_ne hbne]
  · have hrej := copydir_rejected fuel s G p q create a b hva hvb inc.1 hyes
    -- the reference fails too, and not with the loose marker
    have hne : ∃ e, step2 s a b (.copydir p q create) = (s, .err e) ∧ e ≠ .OperationFailed := by
      simp only [step2, hip, Bool.false_eq_true, if_false]
      rcases hga : s.root.get a with _ | ⟨fa | es⟩ <;> rcases hgb : s.root.get b with _ | ⟨fb | ds⟩ <;>
        cases create <;> simp [fail, hga, hgb] at hyes ⊢
      · simp [hyes, fail]
    obtain ⟨e, he, hl⟩ := hne
    exact .rejected e (by rw [hr0, he]) hl (by rw [hr0]; exact hrej)


/-- the side condition of (b) and (c): the destination is not a PROPER ancestor of the source (destination
inside the source — `IllegalDestination` — and destination = source are covered) -/
def DstNotAboveSrc (p q : Str) : Prop :=
  ∀ a b, validate p = .ok a → validate q = .ok b → b <+: a → a = b

theorem inc_of_side {p q : Str} {a b : List Name} (hov : DstNotAboveSrc p q) (hva : validate p = .ok a)
    (hvb : validate q = .ok b) (hab : ¬ a <+: b) : Inc a b :=
  ⟨hab, fun h => hab ((hov a b hva hvb h) ▸ List.prefix_refl _)⟩

theorem has_parent_of_get {R : Node} {b : List Name} {n : Node} (h : R.get b = some n) :
    b = [] ∨ ∃ ps, R.get (parentOf b) = some (.dir ps) := by
  by_cases hb : b = []
  · exact Or.inl hb
  · exact Or.inr (get_parent_dir hb h)

/-- **copydir_operational_eq.**  `FS.copydir` as coded — `validatepath` ×2, the `isbase` test, `exists(dst)`
unless `create`, `getinfo(src).is_dir`, then `copy_dir`: `makedirs(dst)`, the breadth-first structure walk with
`makedir(recreate=True)`, the breadth-first file walk with `copy(overwrite=True)` — over the primitives of ANY
filesystem `F` that refines the reference, whenever the destination is not a proper ancestor of the source
and the reference's outcome is not the loose marker: the same verdict as `Ref.copydir`; on success the same
value and a tree that shows the same at every path (`ObsEq`: entry order aside); on failure nothing has changed
and the class is admissible for `copydir` (or it is the `ResourceNotFound` a filesystem may answer to
`makedirs` below a file). -/
theorem copydir_operational_eq (F : FS State) (hF : RefinesRef F) (fuel : Nat) (s : State) (G : Good s)
    (p q : Str) (create : Bool) (hov : DstNotAboveSrc p q) (hf : treeSize s.root p < fuel) :
    let r := copydir (primOfStep F) fuel s p q create
    let r0 := Ref.step s (.copydir p q create)
    r0.2 ≠ .err .OperationFailed →
      r.2.isOk = r0.2.isOk ∧
      (r0.2.isOk = true → r.2 = r0.2 ∧ r.1.closed = r0.1.closed ∧ ObsEq r.1.root r0.1.root) ∧
      (∀ e, r.2 = .err e → r.1 = s ∧ (e ∈ adm s (.copydir p q create) ∨
        (e = .ResourceNotFound ∧ ∃ b, validate q = .ok b ∧ blockedByFile s.root [] b = true))) := by
  intro r r0 hl
  have hr0d : Ref.step s (.copydir p q create) = r0 := rfl
  have hrd : copydir (primOfStep F) fuel s p q create = r := rfl
  clear_value r r0
  -- a rejection by a pure check: the same pair, the class is the reference's
  have pure : ∀ e, r0 = (s, .err e) → r = (s, .err e) →
      r.2.isOk = r0.2.isOk ∧
      (r0.2.isOk = true → r.2 = r0.2 ∧ r.1.closed = r0.1.closed ∧ ObsEq r.1.root r0.1.root) ∧
      (∀ e, r.2 = .err e → r.1 = s ∧ (e ∈ adm s (.copydir p q create) ∨
        (e = .ResourceNotFound ∧ ∃ b, validate q = .ok b ∧ blockedByFile s.root [] b = true))) := by
    intro e h0 hr
    refine ⟨(by rw [hr, h0]), (fun h => by rw [h0] at h; cases h), fun e' he' => ?_⟩
    rw [hr] at he' ⊢
    simp only [Res.err.injEq] at he'
    subst he'
    refine ⟨rfl, Or.inl ?_⟩
    rcases C06.ref_error_truthful s (.copydir p q create) e G.dir (by rw [hr0d, h0]) with h | h
    · exact h
    · subst h; rw [h0] at hl; exact absurd rfl hl
  have hstep : r0 = match validate p with
      | .err e => (s, .err e)
      | .ok ca => match validate q with
        | .err e => (s, .err e)
        | .ok cb => step2 s ca cb (.copydir p q create) := by
    rw [← hr0d, QueryLemmas.step_two s _ p q G.opn rfl]; rfl
  obtain ⟨vp, hva⟩ : ∃ vp, validate p = vp := ⟨_, rfl⟩
  obtain ⟨vq, hvb⟩ : ∃ vq, validate q = vq := ⟨_, rfl⟩
  have hpe : ∀ e, validate p = .err e → r.2.isOk = r0.2.isOk ∧
      (r0.2.isOk = true → r.2 = r0.2 ∧ r.1.closed = r0.1.closed ∧ ObsEq r.1.root r0.1.root) ∧
      (∀ e, r.2 = .err e → r.1 = s ∧ (e ∈ adm s (.copydir p q create) ∨
        (e = .ResourceNotFound ∧ ∃ b, validate q = .ok b ∧ blockedByFile s.root [] b = true))) := by
    intro e hva
    refine pure e (by rw [hstep, hva]) ?_
    rw [← hrd]
    simp [copydir, prim_validatepath, validateOf_exact F hF s G p, validateOf_ref s G.opn, hva]
  have hqe : ∀ a e, validate p = .ok a → validate q = .err e → r.2.isOk = r0.2.isOk ∧
      (r0.2.isOk = true → r.2 = r0.2 ∧ r.1.closed = r0.1.closed ∧ ObsEq r.1.root r0.1.root) ∧
      (∀ e, r.2 = .err e → r.1 = s ∧ (e ∈ adm s (.copydir p q create) ∨
        (e = .ResourceNotFound ∧ ∃ b, validate q = .ok b ∧ blockedByFile s.root [] b = true))) := by
    intro a e hva hvb
    refine pure e (by rw [hstep, hva, hvb]) ?_
    rw [← hrd]
    simp [copydir, prim_validatepath, validateOf_exact F hF s G, validateOf_ref s G.opn, hva, hvb]
  rcases vp with a | e
  case err => exact hpe e hva
  rcases vq with b | e
  case err => exact hqe a e hva hvb
  have ha : CleanN a := TreeLemmas.validate_clean p a hva
  have hb : CleanN b := TreeLemmas.validate_clean q b hvb
  by_cases hab : a <+: b
  · refine pure .IllegalDestination ?_ ?_
    · rw [hstep, hva, hvb]
      simp [step2, (TreeLemmas.isPrefix_iff a b).2 hab, fail]
    · rw [← hrd]
      simp [copydir, validate_F F hF s G p a hva, validate_F F hF s G q b hvb, (isbase_absOf ha hb).2 hab]
  have inc := inc_of_side hov hva hvb hab
  have hcase := copydir_ref_cases fuel s G p q create a b hva hvb inc (by simpa [treeSize, hva] using hf)
  rw [hr0d] at hcase
  have hL := (lift_copydir F hF fuel s G p q create).1
  rw [show copydir (PF F) fuel s p q create = r from hrd] at hL
  by_cases hyes : (∃ es, s.root.get a = some (.dir es)) ∧
      ((∃ ds, s.root.get b = some (.dir ds)) ∨ (s.root.get b = none ∧ create = true ∧ blockedByFile s.root [] b = false))
  · -- the walks run
    cases hcase with
    | rejected e h0 hle hP =>
      exfalso
      obtain ⟨⟨es, hga⟩, hdst⟩ := hyes
      have hip : isPrefix a b = false := by
        rw [Bool.eq_false_iff]; intro h; exact hab ((TreeLemmas.isPrefix_iff a b).1 h)
      have h0' : step2 s a b (.copydir p q create) = (s, .err e) := by
        rw [← h0, hstep, hva, hvb]
      rcases hdst with ⟨ds, hgb⟩ | ⟨hgb, hcr, hbl⟩
      · simp only [step2, hip, Bool.false_eq_true, if_false, hgb, hga] at h0'
        cases hm : mergeEnts es ds with
        | none => rw [hm] at h0'; simp [fail] at h0'; exact hle h0'.symm
        | some m => rw [hm] at h0'; simp [upd] at h0'
      · subst hcr
        simp [step2, hip, hgb, hga, hbl, upd] at h0'
    | merged root1 es ds0 m D2 h0 hP hm hop hobs hD2 hga hga1 hgb1 hw1 hd1 hr1 =>
      rcases lift_cases hL with ⟨s1, v, hrP, hrF⟩ | ⟨s1, e0, e', hrP, _⟩
      · rw [show copydir PR fuel s p q create = copydir prim_of_ref fuel s p q create from rfl, hP] at hrP
        simp only [Prod.mk.injEq, Res.ok.injEq] at hrP
        obtain ⟨rfl, rfl⟩ := hrP
        refine ⟨(by rw [hrF, h0]), (fun _ => ⟨by rw [hrF, h0], by rw [hrF, h0]; exact G.opn.symm, ?_⟩), fun e he => ?_⟩
        · rw [hrF, h0]
          exact obsEq_setAt (has_parent_of_get hgb1) hobs
        · rw [hrF] at he; cases he
      · rw [show copydir PR fuel s p q create = copydir prim_of_ref fuel s p q create from rfl, hP] at hrP
        cases hrP
    | conflict es ds D' c h0 _ _ _ _ _ => rw [h0] at hl; exact absurd rfl hl
  · -- rejected by the checks
    obtain ⟨e', hrF, hcls⟩ := copydir_F_rejected F hF fuel s G p q create a b hva hvb hab hyes
    rw [show copydir (PF F) fuel s p q create = r from hrd] at hrF
    have h0 : ∃ e, r0 = (s, .err e) := by
      cases hcase with
      | rejected e h0 _ _ => exact ⟨e, h0⟩
      | merged root1 es ds0 m D2 h0 hP hm hop hobs hD2 hga hga1 hgb1 hw1 hd1 hr1 =>
        exfalso
        rcases hr1 with rfl | ⟨_, _, hgb, hcr, hbl⟩
        · exact hyes ⟨⟨es, hga⟩, Or.inl ⟨ds0, hgb1⟩⟩
        · exact hyes ⟨⟨es, hga⟩, Or.inr ⟨hgb, hcr, hbl⟩⟩
      | conflict es ds D' c h0 _ hga hgb _ _ => exact absurd ⟨⟨es, hga⟩, Or.inl ⟨ds, hgb⟩⟩ hyes
    obtain ⟨e, h0⟩ := h0
    refine ⟨(by rw [hrF, h0]; rfl), (fun h => by rw [h0] at h; cases h), fun x hx => ?_⟩
    rw [hrF] at hx ⊢
    simp only [Res.err.injEq] at hx
    subst hx
    refine ⟨rfl, ?_⟩
    rcases hcls with h | ⟨h1, h2⟩
    · exact Or.inl h
    · exact Or.inr ⟨h1, b, hvb, h2⟩


/-- **copydir_operational_eq (over the reference's own primitives): rejections are EXACT.**  Whenever the
reference refuses the call with a definite class (not the loose marker), the walkers over `Ref.step`'s
primitives refuse it with the SAME class and change nothing: the order of the checks in `FS.copydir` /
`copy_structure` is the reference's. -/
theorem copydir_operational_eq_ref (fuel : Nat) (s : State) (G : Good s) (p q : Str) (create : Bool)
    (hov : DstNotAboveSrc p q) (hf : treeSize s.root p < fuel) (e : Err)
    (h0 : (Ref.step s (.copydir p q create)).2 = .err e) (hl : e ≠ .OperationFailed) :
    copydir prim_of_ref fuel s p q create = Ref.step s (.copydir p q create) := by
  have hst := C06.failed_step_unchanged s _ e h0
  have hr0 : Ref.step s (.copydir p q create) = (s, .err e) := Prod.ext hst h0
  have hstep := QueryLemmas.step_two s (.copydir p q create) p q G.opn rfl
  obtain ⟨vp, hva⟩ : ∃ vp, validate p = vp := ⟨_, rfl⟩
  obtain ⟨vq, hvb⟩ : ∃ vq, validate q = vq := ⟨_, rfl⟩
  rcases vp with a | e1
  case err =>
    rw [hstep, hva]
    simp [copydir, prim_validatepath, validateOf_ref s G.opn, hva, fail]
  rcases vq with b | e1
  case err =>
    rw [hstep, hva, hvb]
    simp [copydir, prim_validatepath, validateOf_ref s G.opn, hva, hvb, fail]
  have ha : CleanN a := TreeLemmas.validate_clean p a hva
  have hb : CleanN b := TreeLemmas.validate_clean q b hvb
  by_cases hab : a <+: b
  · rw [hstep, hva, hvb]
    simp [copydir, prim_validatepath, validateOf_ref s G.opn, hva, hvb, (isbase_absOf ha hb).2 hab, step2,
      (TreeLemmas.isPrefix_iff a b).2 hab, fail]
  · have inc := inc_of_side hov hva hvb hab
    cases copydir_ref_cases fuel s G p q create a b hva hvb inc (by simpa [treeSize, hva] using hf) with
    | rejected _ _ _ hP => exact hP
    | merged root1 es ds0 m D2 h0' => rw [hr0] at h0'; simp at h0'
    | conflict es ds D' c h0' =>
      rw [hr0] at h0'
      simp only [Prod.mk.injEq, Res.err.injEq, true_and] at h0'
      exact absurd h0' hl

/-- **copydir_operational_exact: the tree, entry order included.**  When the reference's `copydir` succeeds
the walkers succeed and leave, at the destination, exactly `opMerge` of the source directory over the
destination directory as `makedirs(dst)` left it — in each directory the sub-directories of the source that
were missing come first (source order), then the files that were missing (source order); existing names keep
their place — where the reference puts `mergeEnts` (source order throughout).  The two show the same at every
path (`ObsEq`). -/
theorem copydir_operational_exact (fuel : Nat) (s : State) (G : Good s) (p q : Str) (create : Bool)
    (a b : List Name) (hva : validate p = .ok a) (hvb : validate q = .ok b) (hov : DstNotAboveSrc p q)
    (hf : treeSize s.root p < fuel) (v : Val) (h0 : (Ref.step s (.copydir p q create)).2 = .ok v) :
    ∃ (root1 : Node) (es ds0 m : Ents) (D2 : Node),
      s.root.get a = some (.dir es) ∧ root1.get b = some (.dir ds0) ∧
      (root1 = s.root ∨ (root1 = mkdirs [] b s.root ∧ ds0 = [] ∧ s.root.get b = none)) ∧
      mergeEnts es ds0 = some m ∧ opMerge (.dir es) (.dir ds0) = some D2 ∧ ObsEq D2 (.dir m) ∧
      Ref.step s (.copydir p q create) = ({ s with root := setAt root1 b (.dir m) }, .ok .unit) ∧
      copydir prim_of_ref fuel s p q create = ({ root := setAt root1 b D2, closed := false }, .ok .unit) := by
  have hab : ¬ a <+: b := by
    intro hab
    rw [QueryLemmas.step_two s _ p q G.opn rfl, hva, hvb] at h0
    simp [step2, (TreeLemmas.isPrefix_iff a b).2 hab, fail] at h0
  have inc := inc_of_side hov hva hvb hab
  cases copydir_ref_cases fuel s G p q create a b hva hvb inc (by simpa [treeSize, hva] using hf) with
  | rejected e h0' => rw [h0'] at h0; cases h0
  | conflict es ds D' c h0' => rw [h0'] at h0; cases h0
  | merged root1 es ds0 m D2 h0' hP hm hop hobs hD2 hga hga1 hgb1 hw1 hd1 hr1 =>
    refine ⟨root1, es, ds0, m, D2, hga, hgb1, ?_, hm, hop, hobs, h0', hP⟩
    rcases hr1 with h | ⟨h1, h2, h3, _, _⟩
    · exact Or.inl h
    · exact Or.inr ⟨h1, h2, h3⟩

/-- **copydir_operational_conflict: what the loose marker stands for.**  When the reference answers its
loose `OperationFailed` (a file/directory conflict somewhere inside: `mergeEnts = none`), the walkers over
ANY refining `F` FAIL MID-WAY: both paths validate, source and destination are directories, the call raises,
and the tree differs from the old one only in the sub-tree at the destination (`setAt s.root b D'`: the part
already copied) — the source and every bystander are untouched. -/
theorem copydir_operational_conflict (F : FS State) (hF : RefinesRef F) (fuel : Nat) (s : State) (G : Good s)
    (p q : Str) (create : Bool) (hov : DstNotAboveSrc p q) (hf : treeSize s.root p < fuel)
    (h0 : (Ref.step s (.copydir p q create)).2 = .err .OperationFailed) :
    ∃ (a b : List Name) (es ds : Ents) (D' : Node) (c : Err),
      validate p = .ok a ∧ validate q = .ok b ∧ Inc a b ∧
      s.root.get a = some (.dir es) ∧ s.root.get b = some (.dir ds) ∧ mergeEnts es ds = none ∧
      copydir (primOfStep F) fuel s p q create = ({ root := setAt s.root b D', closed := false }, .err c) := by
  have hstep := QueryLemmas.step_two s (.copydir p q create) p q G.opn rfl
  obtain ⟨vp, hva⟩ : ∃ vp, validate p = vp := ⟨_, rfl⟩
  obtain ⟨vq, hvb⟩ : ∃ vq, validate q = vq := ⟨_, rfl⟩
  rcases vp with a | e1
  case err =>
    rw [hstep, hva] at h0
    simp only [fail, Res.err.injEq] at h0
    exact absurd (h0 ▸ hva) (MultiFsLemmas.validate_not_loose p)
  rcases vq with b | e1
  case err =>
    rw [hstep, hva, hvb] at h0
    simp only [fail, Res.err.injEq] at h0
    exact absurd (h0 ▸ hvb) (MultiFsLemmas.validate_not_loose q)
  have hab : ¬ a <+: b := by
    intro hab
    rw [hstep, hva, hvb] at h0
    simp [step2, (TreeLemmas.isPrefix_iff a b).2 hab, fail] at h0
  have inc := inc_of_side hov hva hvb hab
  cases copydir_ref_cases fuel s G p q create a b hva hvb inc (by simpa [treeSize, hva] using hf) with
  | rejected e h0' hl => rw [h0'] at h0; simp at h0; exact absurd h0 hl
  | merged root1 es ds0 m D2 h0' => rw [h0'] at h0; cases h0
  | conflict es ds D' c _ hP hga hgb hm _ =>
    have hL := (lift_copydir F hF fuel s G p q create).1
    rw [show copydir PR fuel s p q create = copydir prim_of_ref fuel s p q create from rfl, hP] at hL
    rcases lift_cases hL with ⟨s1, v, hrP, _⟩ | ⟨s1, e0, e', hrP, hrF⟩
    · cases hrP
    · simp only [Prod.mk.injEq, Res.err.injEq] at hrP
      obtain ⟨rfl, _⟩ := hrP
      exact ⟨a, b, es, ds, D', e', hva, hvb, inc, hga, hgb, hm, hrF⟩

open Classical in
/-- … and over the reference's own primitives the class tells WHICH conflict was met: `DirectoryExpected`
(from `makedir(recreate=True)` in the structure walk) exactly when some source DIRECTORY lies over a
destination FILE — anywhere in the tree, the structure walk is complete before the first file is copied —,
otherwise `FileExpected` (from `copy(overwrite=True)` in the file walk: a source FILE over a destination
DIRECTORY). -/
theorem copydir_conflict_class_ref (fuel : Nat) (s : State) (G : Good s) (p q : Str) (create : Bool)
    (hov : DstNotAboveSrc p q) (hf : treeSize s.root p < fuel)
    (h0 : (Ref.step s (.copydir p q create)).2 = .err .OperationFailed) :
    ∃ (a b : List Name) (es ds : Ents) (D' : Node),
      validate p = .ok a ∧ validate q = .ok b ∧ s.root.get a = some (.dir es) ∧ s.root.get b = some (.dir ds) ∧
      copydir prim_of_ref fuel s p q create =
        ({ root := setAt s.root b D', closed := false },
         .err (if (∃ x e fb, (Node.dir es).get x = some (.dir e) ∧ (Node.dir ds).get x = some (.file fb))
               then .DirectoryExpected else .FileExpected)) := by
  have hstep := QueryLemmas.step_two s (.copydir p q create) p q G.opn rfl
  obtain ⟨vp, hva⟩ : ∃ vp, validate p = vp := ⟨_, rfl⟩
  obtain ⟨vq, hvb⟩ : ∃ vq, validate q = vq := ⟨_, rfl⟩
  rcases vp with a | e1
  case err =>
    rw [hstep, hva] at h0
    simp only [fail, Res.err.injEq] at h0
    exact absurd (h0 ▸ hva) (MultiFsLemmas.validate_not_loose p)
  rcases vq with b | e1
  case err =>
    rw [hstep, hva, hvb] at h0
    simp only [fail, Res.err.injEq] at h0
    exact absurd (h0 ▸ hvb) (MultiFsLemmas.validate_not_loose q)
  have hab : ¬ a <+: b := by
    intro hab
    rw [hstep, hva, hvb] at h0
    simp [step2, (TreeLemmas.isPrefix_iff a b).2 hab, fail] at h0
  have inc := inc_of_side hov hva hvb hab
  cases copydir_ref_cases fuel s G p q create a b hva hvb inc (by simpa [treeSize, hva] using hf) with
  | rejected e h0' hl => rw [h0'] at h0; simp at h0; exact absurd h0 hl
  | merged root1 es ds0 m D2 h0' => rw [h0'] at h0; cases h0
  | conflict es ds D' c _ hP hga hgb hm hc =>
    refine ⟨a, b, es, ds, D', hva, hvb, hga, hgb, ?_⟩
    have hwe := entsWf_of_get G.wf hga
    have hwd := entsWf_of_get G.wf hgb
    rw [hP]
    rcases hc with ⟨rfl, hst⟩ | ⟨rfl, D1, hst, _⟩
    · rw [if_pos ((struct_none_iff es ds hwe hwd).1 hst)]
    · rw [if_neg]
      intro hex
      rw [(struct_none_iff es ds hwe hwd).2 hex] at hst; cases hst


/-! ## (c) `FS.movedir` -/

/-- the region in which `move_dir` gets to its `copy_dir`: the source is a directory, the destination is a
directory or is created below an existing directory -/
def MoveRuns (s : State) (a b : List Name) (create : Bool) : Prop :=
  (∃ es, s.root.get a = some (.dir es)) ∧
    ((∃ ds, s.root.get b = some (.dir ds)) ∨
     (s.root.get b = none ∧ create = true ∧ ∃ ps, s.root.get (parentOf b) = some (.dir ps)))

theorem parent_after_set {R : Node} {b : List Name} {ps : Ents} (hne : b ≠ [])
    (hp : R.get (parentOf b) = some (.dir ps)) (v : Node) : ∃ ps', (R.set b v).get (parentOf b) = some (.dir ps') := by
  obtain ⟨par, k, rfl⟩ : ∃ par k, b = par ++ [k] := ⟨b.dropLast, b.getLast hne, (List.dropLast_concat_getLast hne).symm⟩
  have hpp : parentOf (par ++ [k]) = par := by simp [parentOf]
  rw [hpp] at hp ⊢
  refine ⟨Ents.put k v ps, ?_⟩
  rw [set_sub hp [k] (by simp), get_setAt_self hp]
  simp [Node.set]

/-- how a `movedir` that gets to its `copy_dir` ends (operational over the reference's primitives `rP`
against the reference `r0`) -/
inductive MoveCase (s : State) (b : List Name) (rP r0 : State × Out) : Prop
  | merged (X Y : Node) (h0 : r0 = ({ s with root := Y }, .ok .unit)) (hP : rP = ({ root := X, closed := false }, .ok .unit))
      (hobs : ObsEq X Y)
  | conflict (es ds : Ents) (D' : Node) (c : Err) (h0 : r0 = (s, .err .OperationFailed))
      (hP : rP = ({ root := setAt s.root b D', closed := false }, .err c))
      (hgb : s.root.get b = some (.dir ds)) (hm : mergeEnts es ds = none)

theorem moveCase_of_outcome (s : State) (G : Good s) (a b : List Name) (inc : Inc a b) (hb : CleanN b)
    (rP r0 : State × Out) (root2 : Node) (es ds0 : Ents) (hout : MoveOutcome root2 a b es ds0 rP)
    (hwe : entsWf es = true) (hwd : entsWf ds0 = true)
    (hp2 : ∃ ps, root2.get (parentOf b) = some (.dir ps)) (hw2 : root2.wf = true)
    (h0 : r0 = match mergeEnts es ds0 with
      | none => (s, .err .OperationFailed)
      | some m => ({ s with root := (root2.set b (.dir m)).del a }, .ok .unit))
    (hnone : mergeEnts es ds0 = none → root2 = s.root ∧ s.root.get b = some (.dir ds0)) :
    MoveCase s b rP r0 := by
  have hbne : b ≠ [] := by rintro rfl; exact inc.2 List.nil_prefix
  have hane : a ≠ [] := by rintro rfl; exact inc.1 List.nil_prefix
  unfold MoveOutcome at hout
  cases hm : mergeEnts es ds0 with
  | some m =>
    obtain ⟨m1, m2, h1, h2, _, hw2', hobs⟩ := merge_some es ds0 m hwe hwd hm
    rw [h1] at hout
    simp only at hout
    rw [h2] at hout
    rw [hm] at h0
    refine .merged _ _ h0 hout ?_
    rw [setAt_ne hbne]
    refine obsEq_del a hane (TreeLemmas.set_wf _ _ _ hb (by simpa [Node.wf] using hw2') hw2)
      (TreeLemmas.set_wf _ _ _ hb (by
        have := mergeEnts_wf es ds0 m hwe hwd hm
        simpa [Node.wf] using this) hw2) ?_
    have := obsEq_setAt (R := root2) (b := b) (Or.inr hp2) hobs
    rwa [setAt_ne hbne, setAt_ne hbne] at this
  | none =>
    rw [hm] at h0
    obtain ⟨hr, hgb⟩ := hnone hm
    subst hr
    rcases merge_none es ds0 hwe hwd hm with h1 | ⟨m1, h1, h2⟩
    · rw [h1] at hout
      obtain ⟨D', hD'⟩ := hout
      exact .conflict es ds0 D' _ h0 hD' hgb hm
    · rw [h1] at hout
      simp only at hout
      rw [h2] at hout
      obtain ⟨D', hD'⟩ := hout
      exact .conflict es ds0 D' _ h0 hD' hgb hm

/-- **the case analysis behind (c)**: `rt` is the `removetree` the move ends with -/
theorem movedir_ref_cases (rt : State → Str → State × Out) (fuel : Nat) (s : State) (G : Good s) (p q : Str)
    (create : Bool) (a b : List Name) (hva : validate p = .ok a) (hvb : validate q = .ok b) (inc : Inc a b)
    (hrt : RtSpec rt fuel p a) (hf : subCount s.root a < fuel) (hrun : MoveRuns s a b create) :
    MoveCase s b (movedir prim_of_ref rt fuel s p q create) (Ref.step s (.movedir p q create)) := by
  have ha : CleanN a := TreeLemmas.validate_clean p a hva
  have hb : CleanN b := TreeLemmas.validate_clean q b hvb
  have hne : a ≠ b := fun e => inc.1 (e ▸ List.prefix_refl _)
  have hbne : b ≠ [] := by rintro rfl; exact inc.2 List.nil_prefix
  have hr0 : Ref.step s (.movedir p q create) = step2 s a b (.movedir p q create) := by
    rw [QueryLemmas.step_two s _ p q G.opn rfl, hva, hvb]
  have hip : isPrefix a b = false := by
    rw [Bool.eq_false_iff]; intro h; exact inc.1 ((TreeLemmas.isPrefix_iff a b).1 h)
  obtain ⟨⟨es, hga⟩, hdst⟩ := hrun
  have hwe : entsWf es = true := entsWf_of_get G.wf hga
  have hcnt : (Node.dir es).count < fuel := by simpa [subCount, hga] using hf
  have hchk := movedir_checks rt fuel s G p q create a b hva hvb hne inc.1
  rcases hdst with ⟨ds, hgb⟩ | ⟨hgb, hcr, ps, hpar⟩
  · have hout := moveDirBody_existing rt fuel s G p q a b hva hvb inc hrt es ds hga hgb hcnt
    have hP : movedir prim_of_ref rt fuel s p q create = moveDirBody PR rt fuel s p q := by
      rw [show movedir prim_of_ref rt fuel s p q create = movedir PR rt fuel s p q create from rfl, hchk]
      simp [hga, hgb]
    rw [hP]
    refine moveCase_of_outcome s G a b inc hb _ _ s.root es ds hout hwe (entsWf_of_get G.wf hgb)
      (get_parent_dir hbne hgb) G.wf ?_ (fun _ => ⟨rfl, hgb⟩)
    rw [hr0]
    have hgb' : (s.root.del a).get b = some (.dir ds) := by
      rw [MemLemmas.get_del_other a b s.root inc.1 inc.2]; exact hgb
    simp only [step2, hne, if_false, hip, Bool.false_eq_true, hga, hgb, hgb']
    cases mergeEnts es ds with
    | none => simp [fail]
    | some m => simp [upd, setAt_ne hbne, MemLemmas.set_del_comm a b s.root _ inc.1 inc.2]
  · subst hcr
    have hout := moveDirBody_created rt fuel s G p q a b hva hvb inc hrt es ps hga hgb hpar hcnt
    have hP : movedir prim_of_ref rt fuel s p q true = moveDirBody PR rt fuel s p q := by
      rw [show movedir prim_of_ref rt fuel s p q true = movedir PR rt fuel s p q true from rfl, hchk]
      simp [hga, hgb]
    rw [hP]
    have hmf : mergeEnts es [] = some es := by
      have := MemLemmas.mergeEnts_fresh es [] hwe (fun _ _ => rfl)
      simpa using this
    have hpar2 := parent_after_set hbne hpar (.dir [])
    have hw2 : (s.root.set b (.dir [])).wf = true := TreeLemmas.set_wf _ _ _ hb (by simp [Node.wf, entsWf]) G.wf
    refine moveCase_of_outcome s G a b inc hb _ _ (s.root.set b (.dir [])) es [] hout hwe (by simp [entsWf])
      hpar2 hw2 ?_ (fun h => by rw [hmf] at h; cases h)
    rw [hr0, hmf]
    simp [step2, hne, hip, hga, hgb, hpar, upd, set_set]


/-- outside `MoveRuns` the reference refuses the call, and not with the loose marker -/
theorem ref_movedir_rejected (s : State) (a b : List Name) (p q : Str) (create : Bool) (hne : a ≠ b)
    (hab : ¬ a <+: b) (hno : ¬ MoveRuns s a b create) :
    ∃ e, step2 s a b (.movedir p q create) = (s, .err e) ∧ e ≠ .OperationFailed := by
  have hip : isPrefix a b = false := by
    rw [Bool.eq_false_iff]; intro h; exact hab ((TreeLemmas.isPrefix_iff a b).1 h)
  simp only [step2, hne, if_false, hip, Bool.false_eq_true]
  rcases hga : s.root.get a with _ | ⟨fa | es⟩
  · exact ⟨_, rfl, by simp⟩
  · exact ⟨_, rfl, by simp⟩
  · rcases hgb : s.root.get b with _ | ⟨fb | ds⟩
    · cases create
      · exact ⟨_, rfl, by simp⟩
      · simp only [Bool.not_true, Bool.false_eq_true, if_false]
        rcases hpar : s.root.get (parentOf b) with _ | ⟨pf | ps⟩
        · exact ⟨_, rfl, by simp⟩
        · exact ⟨_, rfl, by simp⟩
        · exact absurd ⟨⟨es, hga⟩, Or.inr ⟨hgb, rfl, ps, hpar⟩⟩ hno
    · exact ⟨_, rfl, by simp⟩
    · exact absurd ⟨⟨es, hga⟩, Or.inl ⟨ds, hgb⟩⟩ hno

/-- **movedir_operational_eq (general form)**: `rtF` / `rtR` are the `removetree` the move ends with, over
`F` and over the reference (the base-class walker, or the class's own method) -/
theorem movedir_operational_eq_gen (F : FS State) (hF : RefinesRef F) (rtF rtR : State → Str → State × Out)
    (hrtL : ∀ s p, GoodS s → Lift (rtF s p) (rtR s p) ∧ GoodS (rtR s p).1)
    (fuel : Nat) (s : State) (G : Good s) (p q : Str) (create : Bool)
    (hrt : ∀ a, validate p = .ok a → RtSpec rtR fuel p a)
    (hov : DstNotAboveSrc p q) (hf : treeSize s.root p < fuel) :
    let r := movedir (primOfStep F) rtF fuel s p q create
    let r0 := Ref.step s (.movedir p q create)
    r0.2 ≠ .err .OperationFailed →
      r.2.isOk = r0.2.isOk ∧
      (r0.2.isOk = true → r.2 = r0.2 ∧ r.1.closed = r0.1.closed ∧ ObsEq r.1.root r0.1.root) ∧
      (∀ e, r.2 = .err e → r.1 = s ∧ e ∈ adm s (.movedir p q create)) := by
  intro r r0 hl
  have hr0d : Ref.step s (.movedir p q create) = r0 := rfl
  have hrd : movedir (primOfStep F) rtF fuel s p q create = r := rfl
  clear_value r r0
  have pure : ∀ e, r0 = (s, .err e) → r = (s, .err e) →
      r.2.isOk = r0.2.isOk ∧
      (r0.2.isOk = true → r.2 = r0.2 ∧ r.1.closed = r0.1.closed ∧ ObsEq r.1.root r0.1.root) ∧
      (∀ e, r.2 = .err e → r.1 = s ∧ e ∈ adm s (.movedir p q create)) := by
    intro e h0 hr
    refine ⟨(by rw [hr, h0]), (fun h => by rw [h0] at h; cases h), fun e' he' => ?_⟩
    rw [hr] at he' ⊢
    simp only [Res.err.injEq] at he'
    subst he'
    refine ⟨rfl, ?_⟩
    rcases C06.ref_error_truthful s (.movedir p q create) e G.dir (by rw [hr0d, h0]) with h | h
    · exact h
    · subst h; rw [h0] at hl; exact absurd rfl hl
  have hstep : r0 = match validate p with
      | .err e => (s, .err e)
      | .ok ca => match validate q with
        | .err e => (s, .err e)
        | .ok cb => step2 s ca cb (.movedir p q create) := by
    rw [← hr0d, QueryLemmas.step_two s _ p q G.opn rfl]; rfl
  obtain ⟨vp, hva⟩ : ∃ vp, validate p = vp := ⟨_, rfl⟩
  obtain ⟨vq, hvb⟩ : ∃ vq, validate q = vq := ⟨_, rfl⟩
  rcases vp with a | e
  case err =>
    refine pure e (by rw [hstep, hva]) ?_
    rw [← hrd]
    simp [movedir, prim_validatepath, validateOf_exact F hF s G p, validateOf_ref s G.opn, hva]
  rcases vq with b | e
  case err =>
    refine pure e (by rw [hstep, hva, hvb]) ?_
    rw [← hrd]
    simp [movedir, prim_validatepath, validateOf_exact F hF s G, validateOf_ref s G.opn, hva, hvb]
  have ha : CleanN a := TreeLemmas.validate_clean p a hva
  have hb : CleanN b := TreeLemmas.validate_clean q b hvb
  by_cases hne : a = b
  · -- moving a directory onto itself: nothing to do
    subst hne
    have h0 : r0 = (s, .ok .unit) := by rw [hstep, hva, hvb]; simp [step2, done]
    have hr : r = (s, .ok .unit) := by
      rw [← hrd]
      simp [movedir, validate_F F hF s G p a hva, validate_F F hF s G q a hvb]
    refine ⟨(by rw [hr, h0]), (fun _ => ⟨by rw [hr, h0], by rw [hr, h0], by rw [hr, h0]; exact obsEq_refl _⟩),
      fun e he => ?_⟩
    rw [hr] at he; cases he
  have hne' : absOf a ≠ absOf b := fun e => hne (absOf_inj ha hb e)
  by_cases hab : a <+: b
  · refine pure .IllegalDestination ?_ ?_
    · rw [hstep, hva, hvb]
      simp [step2, hne, (TreeLemmas.isPrefix_iff a b).2 hab, fail]
    · rw [← hrd]
      simp [movedir, validate_F F hF s G p a hva, validate_F F hF s G q b hvb, hne', (isbase_absOf ha hb).2 hab]
  have inc := inc_of_side hov hva hvb hab
  have hL := (lift_movedir F hF rtF rtR hrtL fuel s G p q create).1
  rw [show movedir (PF F) rtF fuel s p q create = r from hrd] at hL
  by_cases hrun : MoveRuns s a b create
  · have hcase := movedir_ref_cases rtR fuel s G p q create a b hva hvb inc (hrt a hva)
      (by simpa [treeSize, hva] using hf) hrun
    rw [hr0d] at hcase
    cases hcase with
    | merged X Y h0 hP hobs =>
      rcases lift_cases hL with ⟨s1, v, hrP, hrF⟩ | ⟨s1, e0, e', hrP, _⟩
      · rw [show movedir PR rtR fuel s p q create = movedir prim_of_ref rtR fuel s p q create from rfl, hP] at hrP
        simp only [Prod.mk.injEq, Res.ok.injEq] at hrP
        obtain ⟨rfl, rfl⟩ := hrP
        refine ⟨(by rw [hrF, h0]), (fun _ => ⟨by rw [hrF, h0], by rw [hrF, h0]; exact G.opn.symm, by rw [hrF, h0]; exact hobs⟩),
          fun e he => ?_⟩
        rw [hrF] at he; cases he
      · rw [show movedir PR rtR fuel s p q create = movedir prim_of_ref rtR fuel s p q create from rfl, hP] at hrP
        cases hrP
    | conflict es ds D' c h0 _ _ _ => rw [h0] at hl; exact absurd rfl hl
  · obtain ⟨e', hrF, hcls⟩ := movedir_F_rejected F hF rtF fuel s G p q create a b hva hvb hne hab hrun
    rw [show movedir (PF F) rtF fuel s p q create = r from hrd] at hrF
    obtain ⟨e, h0, _⟩ := ref_movedir_rejected s a b p q create hne hab hrun
    have h0' : r0 = (s, .err e) := by rw [hstep, hva, hvb]; exact h0
    refine ⟨(by rw [hrF, h0']; rfl), (fun h => by rw [h0'] at h; cases h), fun x hx => ?_⟩
    rw [hrF] at hx ⊢
    simp only [Res.err.injEq] at hx
    subst hx
    exact ⟨rfl, hcls⟩

/-- **movedir_operational_eq.**  `FS.movedir` as coded — `validatepath` ×2, the same-path exit, the `isbase`
test, `exists(dst)` unless `create`, then `move_dir`: `getinfo(src).is_dir`, `makedir(dst, recreate=True)`,
`copy_dir`, and the base-class `removetree(src)` (walker) — over the primitives of ANY filesystem `F` that
refines the reference, whenever the destination is not a proper ancestor of the source and the reference's
outcome is not the loose marker: the same verdict as `Ref.movedir`; on success the same value and a tree that
shows the same at every path (`ObsEq`) — in particular the source is gone and its complete content is at the
destination; on failure nothing has changed and the class is admissible. -/
theorem movedir_operational_eq (F : FS State) (hF : RefinesRef F) (fuel : Nat) (s : State) (G : Good s)
    (p q : Str) (create : Bool) (hov : DstNotAboveSrc p q) (hf : treeSize s.root p < fuel) :
    let r := movedir (primOfStep F) (removetree (primOfStep F) fuel) fuel s p q create
    let r0 := Ref.step s (.movedir p q create)
    r0.2 ≠ .err .OperationFailed →
      r.2.isOk = r0.2.isOk ∧
      (r0.2.isOk = true → r.2 = r0.2 ∧ r.1.closed = r0.1.closed ∧ ObsEq r.1.root r0.1.root) ∧
      (∀ e, r.2 = .err e → r.1 = s ∧ e ∈ adm s (.movedir p q create)) :=
  movedir_operational_eq_gen F hF _ (removetree PR fuel) (fun s' p' G' => lift_removetree F hF fuel s' G' p')
    fuel s G p q create (fun a hva => rtSpec_base fuel p a hva) hov hf

/-- … and when the class overrides `removetree` (MemoryFS, OSFS): `move_dir` ends with the class's own -/
theorem movedir_operational_eq_own (F : FS State) (hF : RefinesRef F) (fuel : Nat) (s : State) (G : Good s)
    (p q : Str) (create : Bool) (hov : DstNotAboveSrc p q) (hf : treeSize s.root p < fuel) :
    let r := movedir (primOfStep F) (fun t x => F t (.removetree x)) fuel s p q create
    let r0 := Ref.step s (.movedir p q create)
    r0.2 ≠ .err .OperationFailed →
      r.2.isOk = r0.2.isOk ∧
      (r0.2.isOk = true → r.2 = r0.2 ∧ r.1.closed = r0.1.closed ∧ ObsEq r.1.root r0.1.root) ∧
      (∀ e, r.2 = .err e → r.1 = s ∧ e ∈ adm s (.movedir p q create)) :=
  movedir_operational_eq_gen F hF _ (fun t x => Ref.step t (.removetree x))
    (fun s' p' G' => ⟨lift_call F hF s' G' (.removetree p') rfl, goodS_step G' _ (by intro h; cases h)⟩)
    fuel s G p q create (fun a _ => rtSpec_own fuel p a) hov hf


/-- **movedir_operational_conflict.**  When the reference answers its loose `OperationFailed`, `move_dir`
over ANY refining `F` fails in its `copy_dir`, BEFORE `removetree(src)`: the call raises and the tree differs
from the old one only in the sub-tree at the destination — the source is complete, nothing was moved away.
(`rtF` / `rtR`: the `removetree` the move would end with, as in `movedir_operational_eq_gen`.) -/
theorem movedir_operational_conflict_gen (F : FS State) (hF : RefinesRef F) (rtF rtR : State → Str → State × Out)
    (hrtL : ∀ s p, GoodS s → Lift (rtF s p) (rtR s p) ∧ GoodS (rtR s p).1)
    (fuel : Nat) (s : State) (G : Good s) (p q : Str) (create : Bool)
    (hrt : ∀ a, validate p = .ok a → RtSpec rtR fuel p a) (hov : DstNotAboveSrc p q)
    (hf : treeSize s.root p < fuel) (h0 : (Ref.step s (.movedir p q create)).2 = .err .OperationFailed) :
    ∃ (a b : List Name) (es ds : Ents) (D' : Node) (c : Err),
      validate p = .ok a ∧ validate q = .ok b ∧ Inc a b ∧ s.root.get b = some (.dir ds) ∧ mergeEnts es ds = none ∧
      movedir (primOfStep F) rtF fuel s p q create = ({ root := setAt s.root b D', closed := false }, .err c) := by
  have hstep := QueryLemmas.step_two s (.movedir p q create) p q G.opn rfl
  obtain ⟨vp, hva⟩ : ∃ vp, validate p = vp := ⟨_, rfl⟩
  obtain ⟨vq, hvb⟩ : ∃ vq, validate q = vq := ⟨_, rfl⟩
  rcases vp with a | e1
  case err =>
    rw [hstep, hva] at h0
    simp only [fail, Res.err.injEq] at h0
    exact absurd (h0 ▸ hva) (MultiFsLemmas.validate_not_loose p)
  rcases vq with b | e1
  case err =>
    rw [hstep, hva, hvb] at h0
    simp only [fail, Res.err.injEq] at h0
    exact absurd (h0 ▸ hvb) (MultiFsLemmas.validate_not_loose q)
  have hne : a ≠ b := by
    rintro rfl
    rw [hstep, hva, hvb] at h0
    simp [step2, done] at h0
  have hab : ¬ a <+: b := by
    intro hab
    rw [hstep, hva, hvb] at h0
    simp [step2, hne, (TreeLemmas.isPrefix_iff a b).2 hab, fail] at h0
  have inc := inc_of_side hov hva hvb hab
  by_cases hrun : MoveRuns s a b create
  · have hcase := movedir_ref_cases rtR fuel s G p q create a b hva hvb inc (hrt a hva)
      (by simpa [treeSize, hva] using hf) hrun
    cases hcase with
    | merged X Y h0' => rw [h0'] at h0; cases h0
    | conflict es ds D' c _ hP hgb hm =>
      have hL := (lift_movedir F hF rtF rtR hrtL fuel s G p q create).1
      rw [show movedir PR rtR fuel s p q create = movedir prim_of_ref rtR fuel s p q create from rfl, hP] at hL
      rcases lift_cases hL with ⟨s1, v, hrP, _⟩ | ⟨s1, e0, e', hrP, hrF⟩
      · cases hrP
      · simp only [Prod.mk.injEq, Res.err.injEq] at hrP
        obtain ⟨rfl, _⟩ := hrP
        exact ⟨a, b, es, ds, D', e', hva, hvb, inc, hgb, hm, hrF⟩
  · obtain ⟨e, he, hl⟩ := ref_movedir_rejected s a b p q create hne hab hrun
    rw [hstep, hva, hvb] at h0
    simp only [he] at h0
    simp at h0; exact absurd h0 hl

theorem movedir_operational_conflict (F : FS State) (hF : RefinesRef F) (fuel : Nat) (s : State) (G : Good s)
    (p q : Str) (create : Bool) (hov : DstNotAboveSrc p q) (hf : treeSize s.root p < fuel)
    (h0 : (Ref.step s (.movedir p q create)).2 = .err .OperationFailed) :
    ∃ (a b : List Name) (es ds : Ents) (D' : Node) (c : Err),
      validate p = .ok a ∧ validate q = .ok b ∧ Inc a b ∧ s.root.get b = some (.dir ds) ∧ mergeEnts es ds = none ∧
      movedir (primOfStep F) (removetree (primOfStep F) fuel) fuel s p q create =
        ({ root := setAt s.root b D', closed := false }, .err c) :=
  movedir_operational_conflict_gen F hF _ (removetree PR fuel) (fun s' p' G' => lift_removetree F hF fuel s' G' p')
    fuel s G p q create (fun a hva => rtSpec_base fuel p a hva) hov hf h0


/-! ## the side conditions are needed: counterexamples on the model of the code -/

section Examples
def fl (n : String) (b : Bytes) : Name × Node := (n.toList, .file b)
def dr (n : String) (es : Ents) : Name × Node := (n.toList, .dir es)
def st (es : Ents) : State := { root := .dir es, closed := false }
/-- the base-class algorithms over the reference's own primitives -/
def opRun (s : State) (op : Op) : State × Out := BaseWalk.step 16 false Ref.step s op
def readAt (r : State × Out) (p : String) : Out := (Ref.step r.1 (.readbytes p.toList)).2
def listAt (r : State × Out) (p : String) : Out := (Ref.step r.1 (.listdir p.toList)).2
def hasAt (r : State × Out) (p : String) : Out := (Ref.step r.1 (.exists_ p.toList)).2

/-- (c) `DstNotAboveSrc` is NEEDED for `movedir`: `movedir('a', '/')` with `a/a/x` — the walkers copy `a/a/x`
to `/a/x`, i.e. INTO the source, and `removetree('a')` then removes it with the source: the call returns, the
reference has the file at `/a/x`, the code has nothing left (the recorded open finding
`movedir-dst-ancestor-of-src-name-clash`) -/
theorem movedir_dst_above_src_counterexample :
    let s := st [dr "a" [dr "a" [fl "x" [1]]]]
    let op := Op.movedir "a".toList "/".toList true
    (opRun s op).2 = .ok .unit ∧ (Ref.step s op).2 = .ok .unit ∧
    readAt (Ref.step s op) "a/x" = .ok (.bytes [1]) ∧
    hasAt (opRun s op) "a/x" = .ok (.bool false) ∧ listAt (opRun s op) "/" = .ok (.names []) := by
  decide +kernel

/-- (b) for `copydir` with the destination ABOVE the source no difference was found (the walk reads a level
before it writes into it); the hypothesis is what the proof uses (the source is not touched by the writes).
On the C05 example `copydir('a', '/')` with `a/f`, `a/a/f` both give the same tree: -/
example :
    let s := st [dr "a" [fl "f" [1], dr "a" [fl "f" [2]]]]
    let op := Op.copydir "a".toList "/".toList false
    (opRun s op).2 = .ok .unit ∧ (Ref.step s op).2 = .ok .unit ∧
    readAt (opRun s op) "a/f" = .ok (.bytes [2]) ∧ readAt (Ref.step s op) "a/f" = .ok (.bytes [2]) ∧
    readAt (opRun s op) "f" = .ok (.bytes [1]) ∧ readAt (Ref.step s op) "f" = .ok (.bytes [1]) := by
  decide +kernel

/-- (b) `ObsEq` cannot be strengthened to equality: the walkers create the directories of a level before
they copy its files, the reference's merge follows the source order -/
theorem copydir_entry_order_counterexample :
    let s := st [dr "a" [fl "f" [1], dr "d" []], dr "b" []]
    let op := Op.copydir "a".toList "b".toList false
    listAt (opRun s op) "b" = .ok (.names ["d".toList, "f".toList]) ∧
    listAt (Ref.step s op) "b" = .ok (.names ["f".toList, "d".toList]) := by
  decide +kernel

/-- (b) the conflicts: a source directory over a destination file → `DirectoryExpected` (nothing copied: the
structure walk comes first); a source file over a destination directory → `FileExpected`, the files met
before it ARE copied (the reference: `OperationFailed`, nothing specified) -/
theorem copydir_conflict_examples :
    let s1 := st [dr "a" [fl "f" [1], dr "x" []], dr "b" [fl "x" [9]]]
    let s2 := st [dr "a" [fl "f" [1], fl "x" [2]], dr "b" [dr "x" []]]
    let op := Op.copydir "a".toList "b".toList false
    (Ref.step s1 op).2 = .err .OperationFailed ∧ (opRun s1 op).2 = .err .DirectoryExpected ∧
    hasAt (opRun s1 op) "b/f" = .ok (.bool false) ∧
    (Ref.step s2 op).2 = .err .OperationFailed ∧ (opRun s2 op).2 = .err .FileExpected ∧
    readAt (opRun s2 op) "b/f" = .ok (.bytes [1]) ∧ readAt (opRun s2 op) "a/x" = .ok (.bytes [2]) := by
  decide +kernel

/-- (a) REPAIRED (/repo 433aea4, finding `C01-removetree-unvalidated-path`): `FS.removetree` used to normalise
its argument (`abspath(normpath(…))`) WITHOUT validating it, so an invalid component that `..` cancels was never
seen — `removetree('x\0/..')` emptied the root (the former `removetree_nul_counterexample`, which is why
`removetree_operational_eq` carried a "no NUL" hypothesis).  It now starts with `validatepath` like every other
method: InvalidCharsInPath, nothing changes — as the reference says -/
theorem removetree_nul_repaired :
    let s := st [fl "f" [1], dr "d" [fl "g" [2]]]
    let op := Op.removetree ['x', '\x00', '/', '.', '.']
    (Ref.step s op).2 = .err .InvalidCharsInPath ∧ hasAt (Ref.step s op) "f" = .ok (.bool true) ∧
    (opRun s op).2 = .err .InvalidCharsInPath ∧ hasAt (opRun s op) "f" = .ok (.bool true) ∧
    readAt (opRun s op) "d/g" = .ok (.bytes [2]) := by
  decide +kernel

/-- (a) fuel is what bounds the walk: without it the model answers `Leak` (Python: no bound, the loop ends
because the tree is finite) -/
theorem removetree_out_of_fuel_counterexample :
    (BaseWalk.step 1 false Ref.step (st [dr "d" [dr "e" []]]) (.removetree "d".toList)).2 = .err .Leak ∧
    (BaseWalk.step 3 false Ref.step (st [dr "d" [dr "e" []]]) (.removetree "d".toList)).2 = .ok .unit := by
  decide +kernel

/-- the hypotheses of (a)–(c) are satisfiable, and the three operations run -/
example :
    let s := st [dr "a" [fl "f" [1], dr "b" [fl "g" [2]]], fl "c" [3]]
    Good s ∧ DstNotAboveSrc "a".toList "e".toList ∧ treeSize s.root "a".toList < 16 ∧
    readAt (opRun s (.copydir "a".toList "e".toList true)) "e/b/g" = .ok (.bytes [2]) ∧
    hasAt (opRun s (.movedir "a".toList "e".toList true)) "a" = .ok (.bool false) ∧
    readAt (opRun s (.movedir "a".toList "e".toList true)) "e/f" = .ok (.bytes [1]) ∧
    hasAt (opRun s (.removetree "a".toList)) "a" = .ok (.bool false) := by
  refine ⟨⟨rfl, rfl, by decide +kernel⟩, ?_, by decide +kernel, by decide +kernel, by decide +kernel,
    by decide +kernel, by decide +kernel⟩
  intro a b ha hb hp
  have h1 : validate "a".toList = .ok ["a".toList] := by decide +kernel
  have h2 : validate "e".toList = .ok ["e".toList] := by decide +kernel
  rw [h1] at ha; rw [h2] at hb
  cases ha; cases hb
  exact absurd hp (by decide)

end Examples

/-! ## (d) the modelling decisions of `FsModel.Mem` / `FsModel.Os`, as theorems -/

theorem os_refines : RefinesRef Os.step := fun s op hc hd hwf hk hl => OsRefines.os_refines_ref s op hc hd hwf hk hl

/-- the class's OWN `copydir` and the base-class algorithm over the class's primitives: the same verdict,
on success the same value and trees that show the same at every path, on failure nothing changed -/
def Agree (s : State) (rOwn rOp : State × Out) : Prop :=
  rOp.2.isOk = rOwn.2.isOk ∧
  (rOwn.2.isOk = true → rOp.2 = rOwn.2 ∧ rOp.1.closed = rOwn.1.closed ∧ ObsEq rOp.1.root rOwn.1.root) ∧
  (rOwn.2.isOk = false → rOp.1 = s ∧ rOwn.1 = s)

theorem agree_of_refines (F : FS State) (hF : RefinesRef F) (s : State) (G : Good s) (op : Op) (rOp : State × Out)
    (hk : ¬ knownDeviation op) (hl : (Ref.step s op).2 ≠ .err .OperationFailed)
    (h1 : rOp.2.isOk = (Ref.step s op).2.isOk)
    (h2 : (Ref.step s op).2.isOk = true → rOp.2 = (Ref.step s op).2 ∧ rOp.1.closed = (Ref.step s op).1.closed ∧
      ObsEq rOp.1.root (Ref.step s op).1.root)
    (h3 : ∀ e, rOp.2 = .err e → rOp.1 = s) : Agree s (F s op) rOp := by
  obtain ⟨f1, f2, f3⟩ := hF s op G.opn G.dir G.wf hk hl
  refine ⟨by rw [h1, f1], fun hok => ?_, fun herr => ?_⟩
  · rw [f1] at hok
    rw [f2 hok]; exact h2 hok
  · refine ⟨?_, ?_⟩
    · rcases hr : rOp.2 with v | e
      · have : rOp.2.isOk = false := by rw [h1, ← f1]; exact herr
        rw [hr] at this; cases this
      · exact h3 e hr
    · rcases hr : (F s op).2 with v | e
      · rw [hr] at herr; cases herr
      · exact (f3 e hr).2

theorem not_dev_of_side {p q : Str} {c : Bool} (hov : DstNotAboveSrc p q) : ¬ knownDeviation (.movedir p q c) := by
  rintro ⟨a, b, ha, hb, hp, hne⟩
  exact hne (hov a b ha hb hp)

/-- **own_copydir_is_operational**: for ANY filesystem that refines the reference, its `copydir` agrees with
`FS.copydir` run over its own primitives — whatever its `copydir` is (the modelling decision "tree-level
merge" of `FsModel.Mem` / `FsModel.Os` included) -/
theorem own_copydir_is_operational (F : FS State) (hF : RefinesRef F) (fuel : Nat) (s : State) (G : Good s)
    (p q : Str) (create : Bool) (hov : DstNotAboveSrc p q) (hf : treeSize s.root p < fuel)
    (hl : (Ref.step s (.copydir p q create)).2 ≠ .err .OperationFailed) :
    Agree s (F s (.copydir p q create)) (BaseWalk.step fuel true F s (.copydir p q create)) := by
  obtain ⟨h1, h2, h3⟩ := copydir_operational_eq F hF fuel s G p q create hov hf hl
  exact agree_of_refines F hF s G _ _ (by simp [knownDeviation]) hl h1 h2 (fun e he => (h3 e he).1)

theorem own_movedir_is_operational (F : FS State) (hF : RefinesRef F) (fuel : Nat) (s : State) (G : Good s)
    (p q : Str) (create : Bool) (hov : DstNotAboveSrc p q) (hf : treeSize s.root p < fuel)
    (hl : (Ref.step s (.movedir p q create)).2 ≠ .err .OperationFailed) :
    Agree s (F s (.movedir p q create)) (BaseWalk.step fuel true F s (.movedir p q create)) := by
  obtain ⟨h1, h2, h3⟩ := movedir_operational_eq_own F hF fuel s G p q create hov hf hl
  exact agree_of_refines F hF s G _ _ (not_dev_of_side hov) hl h1 h2 (fun e he => (h3 e he).1)

theorem own_removetree_is_operational (F : FS State) (hF : RefinesRef F) (fuel : Nat) (s : State) (G : Good s)
    (p : Str) (hf : treeSize s.root p < fuel) :
    Agree s (F s (.removetree p)) (BaseWalk.step fuel false F s (.removetree p)) := by
  obtain ⟨h1, h2, h3⟩ := removetree_operational_eq F hF fuel s G p hf
  have hl : (Ref.step s (.removetree p)).2 ≠ .err .OperationFailed := MultiFsLemmas.not_loose s _ rfl
  refine agree_of_refines F hF s G _ _ (by simp [knownDeviation]) hl h1 (fun hok => ?_) (fun e he => (h3 e he).2)
  have := h2 hok
  show (removetree (primOfStep F) fuel s p).2 = _ ∧ (removetree (primOfStep F) fuel s p).1.closed = _ ∧
    ObsEq (removetree (primOfStep F) fuel s p).1.root _
  rw [this]
  exact ⟨rfl, rfl, obsEq_refl _⟩

/-- **mem_copydir_is_operational**: `FsModel.Mem.copydir` (base-class `FS.copydir` + `copy_dir` modelled as the
tree-level merge — "a modelling decision") IS `FS.copydir` as coded (`FsModel.BaseWalk`) over MemoryFS's own
`scandir` / `makedir(s)` / `copy` / … (`Mem.step`), entry order aside -/
theorem mem_copydir_is_operational (fuel : Nat) (s : State) (G : Good s) (p q : Str) (create : Bool)
    (hov : DstNotAboveSrc p q) (hf : treeSize s.root p < fuel)
    (hl : (Ref.step s (.copydir p q create)).2 ≠ .err .OperationFailed) :
    Agree s (Mem.step s (.copydir p q create)) (BaseWalk.step fuel true Mem.step s (.copydir p q create)) :=
  own_copydir_is_operational Mem.step mem_refines fuel s G p q create hov hf hl

/-- `MemoryFS.movedir` (its own re-linking, or the base class when the destination exists) against
`FS.movedir` as coded over MemoryFS's primitives (ending with `MemoryFS.removetree`) -/
theorem mem_movedir_is_operational (fuel : Nat) (s : State) (G : Good s) (p q : Str) (create : Bool)
    (hov : DstNotAboveSrc p q) (hf : treeSize s.root p < fuel)
    (hl : (Ref.step s (.movedir p q create)).2 ≠ .err .OperationFailed) :
    Agree s (Mem.step s (.movedir p q create)) (BaseWalk.step fuel true Mem.step s (.movedir p q create)) :=
  own_movedir_is_operational Mem.step mem_refines fuel s G p q create hov hf hl

/-- `MemoryFS.removetree` (un-linking the sub-tree) against the base-class walker over MemoryFS's primitives -/
theorem mem_removetree_is_operational (fuel : Nat) (s : State) (G : Good s) (p : Str)
    (hf : treeSize s.root p < fuel) :
    Agree s (Mem.step s (.removetree p)) (BaseWalk.step fuel false Mem.step s (.removetree p)) :=
  own_removetree_is_operational Mem.step mem_refines fuel s G p hf

/-- **os_copydir_is_operational** (`Os.copydir`: the same modelling decision, over the POSIX model) -/
theorem os_copydir_is_operational (fuel : Nat) (s : State) (G : Good s) (p q : Str) (create : Bool)
    (hov : DstNotAboveSrc p q) (hf : treeSize s.root p < fuel)
    (hl : (Ref.step s (.copydir p q create)).2 ≠ .err .OperationFailed) :
    Agree s (Os.step s (.copydir p q create)) (BaseWalk.step fuel true Os.step s (.copydir p q create)) :=
  own_copydir_is_operational Os.step os_refines fuel s G p q create hov hf hl

theorem os_movedir_is_operational (fuel : Nat) (s : State) (G : Good s) (p q : Str) (create : Bool)
    (hov : DstNotAboveSrc p q) (hf : treeSize s.root p < fuel)
    (hl : (Ref.step s (.movedir p q create)).2 ≠ .err .OperationFailed) :
    Agree s (Os.step s (.movedir p q create)) (BaseWalk.step fuel true Os.step s (.movedir p q create)) :=
  own_movedir_is_operational Os.step os_refines fuel s G p q create hov hf hl

theorem os_removetree_is_operational (fuel : Nat) (s : State) (G : Good s) (p : Str)
    (hf : treeSize s.root p < fuel) :
    Agree s (Os.step s (.removetree p)) (BaseWalk.step fuel false Os.step s (.removetree p)) :=
  own_removetree_is_operational Os.step os_refines fuel s G p hf


/-! ## (e) the same three theorems for a primitive interface over ANY state type

`P : Prim σ` reaches a reference state through `emb : State → σ` (a filesystem object that wraps one tree);
`PrimSim` / `PrimAdm` say that its nine calls follow the reference's.  This is what a single-layer MultiFS
satisfies (`BaseWalkMulti.primSim_single`, `primAdm_single`). -/

section Prim
variable {σ : Type} (P : Prim σ) (emb : State → σ) (H : PrimSim P emb) (A : PrimAdm P emb)
include H A

theorem removetree_operational_eq_prim (fuel : Nat) (t : State) (G : Good t) (p : Str)
    (hf : treeSize t.root p < fuel) :
    let r := removetree P fuel (emb t) p
    let r0 := Ref.step t (.removetree p)
    r.2.isOk = r0.2.isOk ∧ (r0.2.isOk = true → r = (emb r0.1, r0.2)) ∧
    (∀ e, r.2 = .err e → r.1 = emb t ∧ e ∈ adm t (.removetree p)) := by
  intro r r0
  have hr0d : Ref.step t (.removetree p) = r0 := rfl
  have hrd : removetree P fuel (emb t) p = r := rfl
  clear_value r r0
  have hL := (sim_removetree P emb H fuel t G p).1
  rw [show removetree PR fuel t p = r0 from (removetree_operational_eq_ref fuel t G p hf).trans hr0d, hrd] at hL
  rcases hL with ⟨t1, v, h0, hr⟩ | ⟨t1, e0, e', h0, hr⟩
  · refine ⟨(by rw [hr, h0]), (fun _ => by rw [hr, h0]), fun e he => ?_⟩
    rw [hr] at he; cases he
  · have hs1 : t1 = t := by
      have := C06.failed_step_unchanged t (.removetree p) e0 (by rw [hr0d, h0])
      rw [hr0d, h0] at this; exact this
    subst hs1
    refine ⟨(by rw [hr, h0]; rfl), (fun h => by rw [h0] at h; cases h), fun e he => ?_⟩
    rw [hr] at he ⊢
    simp only [Res.err.injEq] at he
    subst he
    refine ⟨rfl, ?_⟩
    cases hv : validate p with
    | err ev =>
      have : r = (emb t1, .err ev) := by
        rw [← hrd]
        simp [removetree, A.vpath t1 p G, hv]
      rw [hr] at this
      simp only [Prod.mk.injEq, Res.err.injEq, true_and] at this
      subst this
      rw [QueryLemmas.adm_one t1 _ p G.opn rfl (by intro x m e; cases e), hv]; simp
    | ok cs =>
      have hcs : CleanN cs := TreeLemmas.validate_clean p cs hv
      obtain ⟨f, rfl⟩ : ∃ f, fuel = f + 1 := ⟨fuel - 1, by omega⟩
      have hr0' : r0 = step1 t1 cs (.removetree p) := by
        rw [← hr0d, QueryLemmas.step_one t1 _ p G.opn rfl (by intro x m e; cases e), hv]
      have hlist : (Ref.step t1 (.listdir (absOf cs))).2 = .err e0 := by
        rw [ref_one t1 G.opn _ hcs rfl (by intro x m e; cases e)]
        rw [hr0'] at h0
        by_cases hne : cs = []
        · subst hne; simp [step1, upd] at h0
        · rcases hg : t1.root.get cs with _ | ⟨fb | es⟩
          · simp only [step1, hne, if_false, hg, fail, Prod.mk.injEq, Res.err.injEq, true_and] at h0 ⊢
            exact h0
          · simp only [step1, hne, if_false, hg, fail, Prod.mk.injEq, Res.err.injEq, true_and] at h0 ⊢
            exact h0
          · simp [step1, hne, hg, upd] at h0
      obtain ⟨e'', hf'', ha⟩ := A.scandir_adm t1 (absOf cs) e0 G hlist
      have : r = (emb t1, .err e'') := by
        rw [← hrd]
        simp [removetree, A.vpath t1 p G, hv, removetreeBody, rmWalk, hf'']
      rw [hr] at this
      simp only [Prod.mk.injEq, Res.err.injEq, true_and] at this
      subst this
      rw [QueryLemmas.adm_one t1 _ _ G.opn rfl (by intro x m e; cases e), validate_absOf hcs] at ha
      rw [QueryLemmas.adm_one t1 _ p G.opn rfl (by intro x m e; cases e), hv]
      simpa [adm1] using ha

/-- the shape of the conclusions of (b) and (c) for an interface over `σ` -/
def WalkerRefines (t : State) (op : Op) (r : σ × Out) (r0 : State × Out) (extra : Err → Prop) : Prop :=
  r.2.isOk = r0.2.isOk ∧
  (r0.2.isOk = true → r.2 = r0.2 ∧ ∃ t', r.1 = emb t' ∧ t'.closed = r0.1.closed ∧ ObsEq t'.root r0.1.root) ∧
  (∀ e, r.2 = .err e → r.1 = emb t ∧ (e ∈ adm t op ∨ extra e))

theorem copydir_operational_eq_prim (fuel : Nat) (t : State) (G : Good t) (p q : Str) (create : Bool)
    (hov : DstNotAboveSrc p q) (hf : treeSize t.root p < fuel)
    (hl : (Ref.step t (.copydir p q create)).2 ≠ .err .OperationFailed) :
    WalkerRefines emb t (.copydir p q create) (copydir P fuel (emb t) p q create) (Ref.step t (.copydir p q create))
      (fun e => e = .ResourceNotFound ∧ ∃ b, validate q = .ok b ∧ blockedByFile t.root [] b = true) := by
  generalize hr0d : Ref.step t (.copydir p q create) = r0 at hl ⊢
  generalize hrd : copydir P fuel (emb t) p q create = r
  have pure : ∀ e, r0 = (t, .err e) → r = (emb t, .err e) →
      WalkerRefines emb t (.copydir p q create) r r0
        (fun e => e = .ResourceNotFound ∧ ∃ b, validate q = .ok b ∧ blockedByFile t.root [] b = true) := by
    intro e h0 hr
    refine ⟨(by rw [hr, h0]), (fun h => by rw [h0] at h; cases h), fun e' he' => ?_⟩
    rw [hr] at he' ⊢
    simp only [Res.err.injEq] at he'
    subst he'
    refine ⟨rfl, Or.inl ?_⟩
    rcases C06.ref_error_truthful t (.copydir p q create) e G.dir (by rw [hr0d, h0]) with h | h
    · exact h
    · subst h; rw [h0] at hl; exact absurd rfl hl
  have hstep : r0 = match validate p with
      | .err e => (t, .err e)
      | .ok ca => match validate q with
        | .err e => (t, .err e)
        | .ok cb => step2 t ca cb (.copydir p q create) := by
    rw [← hr0d, QueryLemmas.step_two t _ p q G.opn rfl]; rfl
  obtain ⟨vp, hva⟩ : ∃ vp, validate p = vp := ⟨_, rfl⟩
  obtain ⟨vq, hvb⟩ : ∃ vq, validate q = vq := ⟨_, rfl⟩
  rcases vp with a | e
  case err =>
    refine pure e (by rw [hstep, hva]) ?_
    rw [← hrd]
    simp [copydir, A.vpath t p G, hva]
  rcases vq with b | e
  case err =>
    refine pure e (by rw [hstep, hva, hvb]) ?_
    rw [← hrd]
    simp [copydir, A.vpath t _ G, hva, hvb]
  have ha : CleanN a := TreeLemmas.validate_clean p a hva
  have hb : CleanN b := TreeLemmas.validate_clean q b hvb
  by_cases hab : a <+: b
  · refine pure .IllegalDestination ?_ ?_
    · rw [hstep, hva, hvb]
      simp [step2, (TreeLemmas.isPrefix_iff a b).2 hab, fail]
    · rw [← hrd]
      simp [copydir, A.vpath t _ G, hva, hvb, (isbase_absOf ha hb).2 hab]
  have inc := inc_of_side hov hva hvb hab
  have hcase := copydir_ref_cases fuel t G p q create a b hva hvb inc (by simpa [treeSize, hva] using hf)
  rw [hr0d] at hcase
  have hL := (sim_copydir P emb H fuel t G p q create).1
  rw [hrd] at hL
  by_cases hyes : (∃ es, t.root.get a = some (.dir es)) ∧
      ((∃ ds, t.root.get b = some (.dir ds)) ∨ (t.root.get b = none ∧ create = true ∧ blockedByFile t.root [] b = false))
  · cases hcase with
    | rejected e h0 hle hP =>
      exfalso
      obtain ⟨⟨es, hga⟩, hdst⟩ := hyes
      have hip : isPrefix a b = false := by
        rw [Bool.eq_false_iff]; intro h; exact hab ((TreeLemmas.isPrefix_iff a b).1 h)
      have h0' : step2 t a b (.copydir p q create) = (t, .err e) := by
        rw [← h0, hstep, hva, hvb]
      rcases hdst with ⟨ds, hgb⟩ | ⟨hgb, hcr, hbl⟩
      · simp only [step2, hip, Bool.false_eq_true, if_false, hgb, hga] at h0'
        cases hm : mergeEnts es ds with
        | none => rw [hm] at h0'; simp [fail] at h0'; exact hle h0'.symm
        | some m => rw [hm] at h0'; simp [upd] at h0'
      · subst hcr
        simp [step2, hip, hgb, hga, hbl, upd] at h0'
    | merged root1 es ds0 m D2 h0 hP hm hop hobs hD2 hga hga1 hgb1 hw1 hd1 hr1 =>
      rcases hL with ⟨s1, v, hrP, hrF⟩ | ⟨s1, e0, e', hrP, _⟩
      · rw [show copydir PR fuel t p q create = copydir prim_of_ref fuel t p q create from rfl, hP] at hrP
        simp only [Prod.mk.injEq, Res.ok.injEq] at hrP
        obtain ⟨rfl, rfl⟩ := hrP
        refine ⟨(by rw [hrF, h0]), (fun _ => ⟨by rw [hrF, h0], _, by rw [hrF], by rw [h0]; exact G.opn.symm, ?_⟩),
          fun e he => ?_⟩
        · rw [h0]
          exact obsEq_setAt (has_parent_of_get hgb1) hobs
        · rw [hrF] at he; cases he
      · rw [show copydir PR fuel t p q create = copydir prim_of_ref fuel t p q create from rfl, hP] at hrP
        cases hrP
    | conflict es ds D' c h0 _ _ _ _ _ => rw [h0] at hl; exact absurd rfl hl
  · obtain ⟨e', hrF, hcls⟩ := copydir_P_rejected P emb A fuel t G p q create a b hva hvb hab hyes
    rw [hrd] at hrF
    have h0 : ∃ e, r0 = (t, .err e) := by
      cases hcase with
      | rejected e h0 _ _ => exact ⟨e, h0⟩
      | merged root1 es ds0 m D2 h0 hP hm hop hobs hD2 hga hga1 hgb1 hw1 hd1 hr1 =>
        exfalso
        rcases hr1 with rfl | ⟨_, _, hgb, hcr, hbl⟩
        · exact hyes ⟨⟨es, hga⟩, Or.inl ⟨ds0, hgb1⟩⟩
        · exact hyes ⟨⟨es, hga⟩, Or.inr ⟨hgb, hcr, hbl⟩⟩
      | conflict es ds D' c h0 _ hga hgb _ _ => exact absurd ⟨⟨es, hga⟩, Or.inl ⟨ds, hgb⟩⟩ hyes
    obtain ⟨e, h0⟩ := h0
    refine ⟨(by rw [hrF, h0]; rfl), (fun h => by rw [h0] at h; cases h), fun x hx => ?_⟩
    rw [hrF] at hx ⊢
    simp only [Res.err.injEq] at hx
    subst hx
    refine ⟨rfl, ?_⟩
    rcases hcls with h | ⟨h1, h2⟩
    · exact Or.inl h
    · exact Or.inr ⟨h1, b, hvb, h2⟩

theorem movedir_operational_eq_prim (rtM : σ → Str → σ × Out) (rtR : State → Str → State × Out)
    (hrtL : ∀ s p, GoodS s → LiftE emb (rtM (emb s) p) (rtR s p) ∧ GoodS (rtR s p).1)
    (fuel : Nat) (t : State) (G : Good t) (p q : Str) (create : Bool)
    (hrt : ∀ a, validate p = .ok a → RtSpec rtR fuel p a)
    (hov : DstNotAboveSrc p q) (hf : treeSize t.root p < fuel)
    (hl : (Ref.step t (.movedir p q create)).2 ≠ .err .OperationFailed) :
    WalkerRefines emb t (.movedir p q create) (movedir P rtM fuel (emb t) p q create) (Ref.step t (.movedir p q create))
      (fun _ => False) := by
  generalize hr0d : Ref.step t (.movedir p q create) = r0 at hl ⊢
  generalize hrd : movedir P rtM fuel (emb t) p q create = r
  have pure : ∀ e, r0 = (t, .err e) → r = (emb t, .err e) →
      WalkerRefines emb t (.movedir p q create) r r0 (fun _ => False) := by
    intro e h0 hr
    refine ⟨(by rw [hr, h0]), (fun h => by rw [h0] at h; cases h), fun e' he' => ?_⟩
    rw [hr] at he' ⊢
    simp only [Res.err.injEq] at he'
    subst he'
    refine ⟨rfl, Or.inl ?_⟩
    rcases C06.ref_error_truthful t (.movedir p q create) e G.dir (by rw [hr0d, h0]) with h | h
    · exact h
    · subst h; rw [h0] at hl; exact absurd rfl hl
  have hstep : r0 = match validate p with
      | .err e => (t, .err e)
      | .ok ca => match validate q with
        | .err e => (t, .err e)
        | .ok cb => step2 t ca cb (.movedir p q create) := by
    rw [← hr0d, QueryLemmas.step_two t _ p q G.opn rfl]; rfl
  obtain ⟨vp, hva⟩ : ∃ vp, validate p = vp := ⟨_, rfl⟩
  obtain ⟨vq, hvb⟩ : ∃ vq, validate q = vq := ⟨_, rfl⟩
  rcases vp with a | e
  case err =>
    refine pure e (by rw [hstep, hva]) ?_
    rw [← hrd]
    simp [movedir, A.vpath t p G, hva]
  rcases vq with b | e
  case err =>
    refine pure e (by rw [hstep, hva, hvb]) ?_
    rw [← hrd]
    simp [movedir, A.vpath t _ G, hva, hvb]
  have ha : CleanN a := TreeLemmas.validate_clean p a hva
  have hb : CleanN b := TreeLemmas.validate_clean q b hvb
  by_cases hne : a = b
  · subst hne
    have h0 : r0 = (t, .ok .unit) := by rw [hstep, hva, hvb]; simp [step2, done]
    have hr : r = (emb t, .ok .unit) := by
      rw [← hrd]
      simp [movedir, A.vpath t _ G, hva, hvb]
    refine ⟨(by rw [hr, h0]), (fun _ => ⟨by rw [hr, h0], t, by rw [hr], by rw [h0], by rw [h0]; exact obsEq_refl _⟩),
      fun e he => ?_⟩
    rw [hr] at he; cases he
  have hne' : absOf a ≠ absOf b := fun e => hne (absOf_inj ha hb e)
  by_cases hab : a <+: b
  · refine pure .IllegalDestination ?_ ?_
    · rw [hstep, hva, hvb]
      simp [step2, hne, (TreeLemmas.isPrefix_iff a b).2 hab, fail]
    · rw [← hrd]
      simp [movedir, A.vpath t _ G, hva, hvb, hne', (isbase_absOf ha hb).2 hab]
  have inc := inc_of_side hov hva hvb hab
  have hL := (sim_movedir P emb H rtM rtR hrtL fuel t G p q create).1
  rw [hrd] at hL
  by_cases hrun : MoveRuns t a b create
  · have hcase := movedir_ref_cases rtR fuel t G p q create a b hva hvb inc (hrt a hva)
      (by simpa [treeSize, hva] using hf) hrun
    rw [hr0d] at hcase
    cases hcase with
    | merged X Y h0 hP hobs =>
      rcases hL with ⟨s1, v, hrP, hrF⟩ | ⟨s1, e0, e', hrP, _⟩
      · rw [show movedir PR rtR fuel t p q create = movedir prim_of_ref rtR fuel t p q create from rfl, hP] at hrP
        simp only [Prod.mk.injEq, Res.ok.injEq] at hrP
        obtain ⟨rfl, rfl⟩ := hrP
        refine ⟨(by rw [hrF, h0]), (fun _ => ⟨by rw [hrF, h0], _, by rw [hrF], by rw [h0]; exact G.opn.symm,
          by rw [h0]; exact hobs⟩), fun e he => ?_⟩
        rw [hrF] at he; cases he
      · rw [show movedir PR rtR fuel t p q create = movedir prim_of_ref rtR fuel t p q create from rfl, hP] at hrP
        cases hrP
    | conflict es ds D' c h0 _ _ _ => rw [h0] at hl; exact absurd rfl hl
  · obtain ⟨e', hrF, hcls⟩ := movedir_P_rejected P emb A rtM fuel t G p q create a b hva hvb hne hab hrun
    rw [hrd] at hrF
    obtain ⟨e, h0, _⟩ := ref_movedir_rejected t a b p q create hne hab hrun
    have h0' : r0 = (t, .err e) := by rw [hstep, hva, hvb]; exact h0
    refine ⟨(by rw [hrF, h0']; rfl), (fun h => by rw [h0'] at h; cases h), fun x hx => ?_⟩
    rw [hrF] at hx ⊢
    simp only [Res.err.injEq] at hx
    subst hx
    exact ⟨rfl, Or.inl hcls⟩

end Prim

/-! ## (f) the single-layer MultiFS, walkers included -/

/-- `ObsEq` here is the `ObsEq` of `MultiRefines` (`multi_mutators_refine_when_unshadowed`) -/
theorem obsEq_iff_multi (a b : Node) : BaseWalkSpec.ObsEq a b ↔ MultiFsLemmas.ObsEq a b := by
  have h : BaseWalkSpec.shallow = MultiFsLemmas.shallow := by
    funext n; cases n <;> rfl
  simp only [BaseWalkSpec.ObsEq, MultiFsLemmas.ObsEq, h]

section Multi
open Fs.MultiFs Fs.MultiFsLemmas Fs.BaseWalkMulti

/-- the side conditions of (a)–(c), per operation -/
def WalkerSide (fuel : Nat) (t : State) : Op → Prop
  | .removetree p => treeSize t.root p < fuel
  | .copydir p q _ => DstNotAboveSrc p q ∧ treeSize t.root p < fuel
  | .movedir p q _ => DstNotAboveSrc p q ∧ treeSize t.root p < fuel
  | _ => True

theorem removetreeM_eq (F : FS State) (fuel : Nat) (s : MState State) (hc : s.closed = false) (p : Str) :
    removetreeM F fuel s p = removetree (MultiFs.prim F) fuel s p := by
  simp only [removetreeM, hc, Bool.false_eq_true, if_false]

/-- **multi_single_write_layer_refines** — FULL: a MultiFS with exactly one layer, which is its write layer
(what `fsharness.make_backend("multi")` builds), over ANY layer filesystem `F` that refines the reference,
refines the reference for EVERY operation other than `close` — the three walkers `removetree`, `copydir`,
`movedir` included (`MultiFs.step`: the base-class algorithms over the MultiFS's own `scandir` / `makedir` /
`copy` / `remove` / …, `FsModel.BaseWalk`): the same verdict as `Ref.step` on the layer's tree; on success the
same value, only the layer's state changes, and it is the reference's resulting state — exactly for every
operation but `copydir` / `movedir`, where the tree shows the same at every path (`ObsEq`: the copier creates
directories before files); on failure nothing changes and the class is admissible (for `copydir` also the
`ResourceNotFound` a layer may answer to `makedirs` below a file).
Side conditions: the loose marker is not the reference's outcome; for the walkers `WalkerSide` (fuel for the
sub-tree; `copydir` / `movedir`: the
destination is not a proper ancestor of the source — `movedir_dst_above_src_counterexample`). -/
theorem multi_single_write_layer_refines (fuel : Nat) (F : FS State) (hF : RefinesRef F)
    (s : MState State) (l : Layer State) (hl : s.layers = [l]) (hw : s.writeIdx = some l.idx)
    (hc : s.closed = false) (G : MultiFsLemmas.Good l.st) (op : Op) (hop : op ≠ .close)
    (hside : WalkerSide fuel l.st op) (hloose : (Ref.step l.st op).2 ≠ .err .OperationFailed) :
    let r := MultiFs.step fuel F s op
    let ref := Ref.step l.st op
    (r.2.isOk = ref.2.isOk) ∧
    (ref.2.isOk = true → r.2 = ref.2 ∧ ∃ t', r.1 = { s with layers := [{ l with st := t' }] } ∧
      t'.closed = ref.1.closed ∧ BaseWalkSpec.ObsEq t'.root ref.1.root ∧ (bulk op = false → t' = ref.1)) ∧
    (∀ e, r.2 = .err e → r.1 = s ∧ (e ∈ adm l.st op ∨
      (e = .ResourceNotFound ∧ ∃ p q c b, op = .copydir p q c ∧ validate q = .ok b ∧ blockedByFile l.st.root [] b = true))) := by
  intro r ref
  have GS : GoodS l.st := ⟨G.opn, G.dir, G.wf⟩
  have C : Cfg s l := ⟨hl, hw, hc⟩
  have hput : put1 s l l.st = s := put1_self ⟨hl, hw, hc, G⟩
  have H := primSim_single F hF C
  have A := primAdm_single F hF C
  by_cases hwk : walker op = false
  · -- not a walker: `MultiRefines.multi_single_write_layer_refines_partial`
    obtain ⟨h1, h2, h3⟩ := MultiRefines.multi_single_write_layer_refines_partial fuel F hF s l hl hw hc G op hop hwk
    refine ⟨h1, fun hok => ?_, fun e he => ⟨(h3 e he).1, Or.inl (h3 e he).2⟩⟩
    obtain ⟨hr, _⟩ := h2 hok
    have hr' : r = ({ s with layers := [{ l with st := ref.1 }] }, ref.2) := hr
    exact ⟨by rw [hr'], ref.1, by rw [hr'], rfl, obsEq_refl _, fun _ => rfl⟩
  · cases op <;> simp only [walker, Bool.true_eq_false, not_false_eq_true, not_true_eq_false] at hwk
    case removetree p =>
      have hf : treeSize l.st.root p < fuel := hside
      have hr : r = removetree (MultiFs.prim F) fuel (put1 s l l.st) p := by
        rw [hput]; show MultiFs.step fuel F s (.removetree p) = _
        simp only [MultiFs.step, hc, Bool.false_eq_true, if_false, stepOpen]; exact removetreeM_eq F fuel s hc p
      obtain ⟨h1, h2, h3⟩ := removetree_operational_eq_prim (MultiFs.prim F) (put1 s l) H A fuel l.st GS p hf
      rw [← hr] at h1 h2 h3
      refine ⟨h1, fun hok => ?_, fun e he => ?_⟩
      · have := h2 hok
        exact ⟨by rw [this], ref.1, by rw [this]; rfl, rfl, obsEq_refl _, fun _ => rfl⟩
      · obtain ⟨hs, ha⟩ := h3 e he
        exact ⟨by rw [hs, hput], Or.inl ha⟩
    case copydir p q c =>
      obtain ⟨hov, hf⟩ := hside
      have hr : r = copydir (MultiFs.prim F) fuel (put1 s l l.st) p q c := by
        rw [hput]; show MultiFs.step fuel F s (.copydir p q c) = _
        simp [MultiFs.step, hc, stepOpen, copydirM]
      obtain ⟨h1, h2, h3⟩ := copydir_operational_eq_prim (MultiFs.prim F) (put1 s l) H A fuel l.st GS p q c hov hf hloose
      rw [← hr] at h1 h2 h3
      refine ⟨h1, fun hok => ?_, fun e he => ?_⟩
      · obtain ⟨hv, t', ht', hcl, hobs⟩ := h2 hok
        exact ⟨hv, t', ht', hcl, hobs, fun hb => by simp [bulk] at hb⟩
      · obtain ⟨hs, ha⟩ := h3 e he
        refine ⟨by rw [hs, hput], ?_⟩
        rcases ha with ha | ⟨h1', b, hvb, hbl⟩
        · exact Or.inl ha
        · exact Or.inr ⟨h1', p, q, c, b, rfl, hvb, hbl⟩
    case movedir p q c =>
      obtain ⟨hov, hf⟩ := hside
      have hr : r = movedir (MultiFs.prim F) (removetreeM F fuel) fuel (put1 s l l.st) p q c := by
        rw [hput]; show MultiFs.step fuel F s (.movedir p q c) = _
        simp [MultiFs.step, hc, stepOpen, movedirM]
      have hrtL : ∀ t x, GoodS t → LiftE (put1 s l) (removetreeM F fuel (put1 s l t) x) (removetree PR fuel t x) ∧
          GoodS (removetree PR fuel t x).1 := by
        intro t x Gt
        rw [removetreeM_eq F fuel (put1 s l t) hc x]
        exact sim_removetree (MultiFs.prim F) (put1 s l) H fuel t Gt x
      obtain ⟨h1, h2, h3⟩ := movedir_operational_eq_prim (MultiFs.prim F) (put1 s l) H A (removetreeM F fuel)
        (removetree PR fuel) hrtL fuel l.st GS p q c (fun a hva => rtSpec_base fuel p a hva) hov hf hloose
      rw [← hr] at h1 h2 h3
      refine ⟨h1, fun hok => ?_, fun e he => ?_⟩
      · obtain ⟨hv, t', ht', hcl, hobs⟩ := h2 hok
        exact ⟨hv, t', ht', hcl, hobs, fun hb => by simp [bulk] at hb⟩
      · obtain ⟨hs, ha⟩ := h3 e he
        refine ⟨by rw [hs, hput], ?_⟩
        rcases ha with ha | ha
        · exact Or.inl ha
        · exact absurd ha id

/-- instance: MultiFS over MemoryFS **as coded** (`FsModel.Mem`), the configuration the harness runs -/
theorem multi_single_mem_refines_full (fuel : Nat) (s : MState State) (l : Layer State) (hl : s.layers = [l])
    (hw : s.writeIdx = some l.idx) (hc : s.closed = false) (G : MultiFsLemmas.Good l.st) (op : Op) (hop : op ≠ .close)
    (hside : WalkerSide fuel l.st op) (hloose : (Ref.step l.st op).2 ≠ .err .OperationFailed) :
    let r := MultiFs.step fuel Mem.step s op
    let ref := Ref.step l.st op
    (r.2.isOk = ref.2.isOk) ∧
    (ref.2.isOk = true → r.2 = ref.2 ∧ ∃ t', r.1 = { s with layers := [{ l with st := t' }] } ∧
      t'.closed = ref.1.closed ∧ BaseWalkSpec.ObsEq t'.root ref.1.root ∧ (bulk op = false → t' = ref.1)) ∧
    (∀ e, r.2 = .err e → r.1 = s ∧ (e ∈ adm l.st op ∨
      (e = .ResourceNotFound ∧ ∃ p q c b, op = .copydir p q c ∧ validate q = .ok b ∧ blockedByFile l.st.root [] b = true))) :=
  multi_single_write_layer_refines fuel Mem.step mem_refines s l hl hw hc G op hop hside hloose

end Multi

end Fs.BaseWalkLaws
