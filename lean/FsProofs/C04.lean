/-
  C04 — read-only filesystems cannot be modified through any call.

  The tables (`shapeRows`, `baseCalls`, `guardRows`, `writingChars`) are GENERATED from the sources
  on every run; the `decide +kernel` theorems below are therefore re-proved whenever the code of
  `fs/wrap.py`, `fs/wrapfs.py`, `fs/zipfs.py`, `fs/tarfs.py`, `fs/base.py` or `fs/mode.py` changes.
  A public method added to `FS` later appears in `methodsOf` and must be classified
  (`all_public_classified`) and safe (`*_table_safe`), or the build fails.
-/
import FsModel.Guard
import FsProofs.Lemmas.GuardLemmas

namespace Fs.C04
open Fs Fs.Ref Fs.Guard Fs.Generated Fs.GuardLemmas

/-! ### the classification is proved against `Ref.step` -/

/-- The classification is justified against `Ref.step`: a name that `Ref.Op` has is classified
mutator/opener exactly when some well-formed open state exists in which some call of it changes
the tree.  (`settimes` is the exception: `Ref` does not model timestamps — see
`settimes_outside_ref` — so it is a mutator by declaration and is checked dynamically on
explicitly set mtimes.) -/
theorem mutator_iff (m : String) (hm : m ∈ refMethods) (hs : m ≠ "settimes") :
    (isMutator m || isOpener m) = true ↔
      ∃ s op, opMeth op = m ∧ s.closed = false ∧ s.root.wf = true ∧ (step s op).1.root ≠ s.root := by
  constructor
  · intro h
    have hw := witness_ok m hm h hs
    unfold witnessOk at hw
    split at hw
    · rename_i s op _
      simp only [Bool.and_eq_true, beq_iff_eq, Bool.not_eq_true', bne_iff_ne, ne_eq] at hw
      exact ⟨s, op, hw.1.1.1, hw.1.1.2, hw.1.2, ne_of_flat hw.2⟩
    · exact absurd hw (by decide)
  · intro ⟨s, op, hop, _, _, hne⟩
    cases hk : (isMutator m || isOpener m) with
    | true => rfl
    | false =>
      exfalso
      apply hne
      have hcl : op ≠ .close := by
        intro h; subst h; simp [step] at hne
      have hp : isPassive (opMeth op) = true := by
        rw [hop]
        exact passive_of_not_mut m hm hk
      rw [ref_passive_pure s op hp hcl]

/-- `Ref` has no timestamps: `settimes` never changes the reference state -/
theorem settimes_outside_ref (s : State) (p : Str) : (step s (.settimes p)).1 = s := by
  simp only [step]
  split
  · rfl
  · split <;> first | rfl | (simp only [step1, done, fail]; split <;> rfl)

/-- an `openbin` whose mode is not a writing one (`Mode.writing` of this tree) changes nothing -/
theorem open_for_reading_is_pure (s : State) (p m : Str) (h : isWritingMode m = false) :
    (step s (.openbin p m)).1 = s := ref_openbin_read_pure s p m h

example : isWritingMode "rb".toList = false ∧ isWritingMode "r+".toList = true ∧
    isWritingMode "x".toList = true := by decide

/-! ### table theorems (re-proved on every run over the generated tables) -/

/-- the extractor understood every class it was asked about, and `Mode.writing` -/
theorem extractor_understood : notUnderstood = [] ∧ writingChars.isSome = true := by decide

/-- every public name visible on a read-only class is classified -/
theorem all_public_classified :
    ∀ cls ∈ roClasses, ∀ m ∈ methodsOf cls, (kindOf m).isSome = true := by decide +kernel

/-- `fs.wrap.read_only`: every mutator (and `open`/`openbin`) is `Safe` -/
theorem ro_table_safe :
    ∀ m ∈ methodsOf "WrapReadOnly", (isMutator m || isOpener m) = true → Safe "WrapReadOnly" m = true := by
  decide +kernel

/-- read-mode ZipFS -/
theorem zip_table_safe :
    ∀ m ∈ methodsOf "ReadZipFS", (isMutator m || isOpener m) = true → Safe "ReadZipFS" m = true := by
  decide +kernel

/-- read-mode TarFS -/
theorem tar_table_safe :
    ∀ m ∈ methodsOf "ReadTarFS", (isMutator m || isOpener m) = true → Safe "ReadTarFS" m = true := by
  decide +kernel

/-- in fact *every* public name of the three classes is harmless (queries and helpers reach the
underlying filesystem only through passive methods) -/
theorem ro_tables_harmless : ∀ cls ∈ roClasses, TableSafe cls = true := by decide +kernel

/-- the three tables are not vacuous: each has the mutators of the API -/
theorem ro_tables_cover_api :
    ∀ cls ∈ roClasses, ∀ m ∈ mutators ++ openers, (methodsOf cls).contains m = true := by decide +kernel

/-- `fs.wrap.read_only` rejects every writing mode before it hands `open`/`openbin` on -/
theorem ro_open_guard_covers_writing :
    ∀ m ∈ methodsOf "WrapReadOnly",
      (match shapeOf "WrapReadOnly" m with
       | .modeGuarded chars _ _ => coversWriting chars
       | _ => true) = true := by decide +kernel

/-- every mutator of `fs.wrap.read_only` is the two-line body `check(); raise ResourceReadOnly` -/
theorem ro_mutators_overridden :
    ∀ m ∈ methodsOf "WrapReadOnly", isMutator m = true →
      (shapeOf "WrapReadOnly" m == .raisesReadOnly || shapeOf "WrapReadOnly" m == .baseDefault) = true := by
  decide +kernel

/-- The depth bound of `Safe` suffices for the emitted call graph: deeper unfolding changes
nothing, for any name. -/
theorem depth_bound_suffices :
    ∀ cls ∈ roClasses, ∀ k m, harmlessN cls (depthBound + k) m = harmlessN cls depthBound m := by
  intro cls hcls
  have hagree : ∀ m ∈ methodsOf cls, harmlessN cls (4 + 2) m = harmlessN cls (4 + 1) m := by
    revert cls
    decide +kernel
  have hall := harmlessN_agree_of_table cls 4 hagree
  have hst := harmlessN_stable cls 5 hall
  intro k m
  have h1 := hst (1 + k) m
  have h2 := hst 1 m
  have e : depthBound + k = 5 + (1 + k) := by simp [depthBound]; omega
  rw [e, h1]
  exact h2.symm

/-! ### `Safe` is sound -/

/-- Soundness of `Safe` for the operational semantics `Exec` (base-class defaults = arbitrary
sequences of the self-calls the extractor found; any public method when `self` escapes), over
*any* underlying filesystem whose passive methods and read-mode opens do not change it. -/
theorem safe_sound {σ : Type} (cls : String) (I : Inner σ) (hI : Honest I) (m : String)
    (h : Safe cls m = true) (s s' : σ) (hx : Exec cls I m s s') : s' = s := by
  obtain ⟨n, hn⟩ := hx
  exact harmless_sound cls I hI n depthBound m s s' h hn

/-- Views never change anything either: a `SubFS` obtained with `opendir`, a `Globber` (whose
`remove` calls `remove`/`removetree`) and a `BoundWalker` act on the read-only filesystem only
through its public methods — any sequence of such calls leaves the underlying state alone. -/
theorem views_never_change {σ : Type} (cls : String) (I : Inner σ) (hI : Honest I)
    (hT : TableSafe cls = true) (s s' : σ)
    (h : SeqOf (Exec cls I) (fun m => m ∈ methodsOf cls) s s') : s' = s := by
  refine seqOf_id _ _ ?_ s s' h
  intro c a b hc hx
  have hs : Safe cls c = true := by
    unfold TableSafe at hT
    rw [List.all_eq_true] at hT
    exact hT c hc
  exact safe_sound cls I hI c hs a b hx

/-- `Ref` is an honest underlying filesystem -/
def refInner : Inner Ref.State where
  call m s s' := ∃ op, opMeth op = m ∧ op ≠ .close ∧ s' = (Ref.step s op).1
  openAs mode s s' := ∃ p, s' = (Ref.step s (.openbin p mode)).1

theorem ref_honest : Honest refInner where
  passive := by
    intro m s s' hp ⟨op, hm, hc, he⟩
    rw [he, ref_passive_pure s op (by rw [hm]; exact hp) hc]
  readOpen := by
    intro mode s s' hw ⟨p, he⟩
    rw [he, ref_openbin_read_pure s p mode hw]

example : ∀ s s', Exec "WrapReadOnly" refInner "writebytes" s s' → s' = s :=
  fun s s' h => safe_sound "WrapReadOnly" refInner ref_honest "writebytes" (by decide +kernel) s s' h

/-! ### the executable wrapper over `Ref` -/

/-- No history through a wrapper whose table is safe changes the wrapped filesystem. -/
theorem ro_never_changes (cls : String) (hT : TableSafe cls = true) (st : RO.State) (ops : List Op) :
    (RO.run cls st ops).1.inner = st.inner := ro_run_inner cls hT ops st

/-- ... in particular for the three read-only constructions of this tree -/
theorem read_only_never_changes (cls : String) (hcls : cls ∈ roClasses) (st : RO.State) (ops : List Op) :
    (RO.run cls st ops).1.inner = st.inner :=
  ro_never_changes cls (ro_tables_harmless cls hcls) st ops

/-- Mutating calls raise `ResourceReadOnly` (unless the wrapper is closed, in which case a
guarded method raises `FilesystemClosed` first). -/
theorem ro_mutators_raise (st : RO.State) (op : Op) (hm : refMutating op = true)
    (hc : st.closed = false) :
    (RO.step "WrapReadOnly" st op).2 = .err .ResourceReadOnly := by
  have hop : op ≠ .close := by intro h; subst h; revert hm; decide
  have hmem : opMeth op ∈ methodsOf "WrapReadOnly" := by
    have : ∀ m ∈ refMethods, m ≠ "close" → (methodsOf "WrapReadOnly").contains m = true := by decide +kernel
    have hin : opMeth op ∈ refMethods := by cases op <;> simp [opMeth, refMethods]
    have hne : opMeth op ≠ "close" := by cases op <;> first | exact absurd rfl hop | simp [opMeth]
    simpa using this _ hin hne
  have hsafe : Safe "WrapReadOnly" (opMeth op) = true := by
    have := ro_tables_harmless "WrapReadOnly" (by decide)
    unfold TableSafe at this
    rw [List.all_eq_true] at this
    exact this _ hmem
  apply ro_mutator_raises "WrapReadOnly" st op hsafe hm (by simp [hc])
  intro chars passes validates hsh
  have hcov : coversWriting chars = true := by
    have := ro_open_guard_covers_writing _ hmem
    rw [hsh] at this
    exact this
  -- a modeGuarded method is an opener, so the call mutates only through a valid writing mode
  have hopener : isOpener (opMeth op) = true := by
    have hh := safe_shape "WrapReadOnly" _ hsafe (by rw [hsh]; simp)
    rw [hsh] at hh
    simp only [harmlessShape, Bool.and_eq_true] at hh
    exact hh.1
  have hmode : (parseBinMode (opMode op)).isSome = true ∧ isWritingMode (opMode op) = true := by
    unfold refMutating at hm
    have : isMutator (opMeth op) = false := by
      revert hopener; unfold isOpener isMutator
      cases kindOf (opMeth op) with
      | none => simp
      | some k => cases k <;> simp
    simpa [this, hopener] using hm
  refine ⟨?_, ?_⟩
  · rw [modeValid_of_parse _ hmode.1]; simp
  · cases hr : rejects chars (opMode op) with
    | true => rfl
    | false =>
      have := hmode.2
      rw [not_writing_of_covers chars _ hcov hr] at this
      exact absurd this (by decide)

/-- read archives: a mutator whose guard fires — every mutator proper, and `openbin` with a mode
the archive's own test rejects — reports `ResourceReadOnly` -/
theorem archive_mutators_raise (cls : String) (hcls : cls ∈ roClasses) (st : RO.State) (op : Op)
    (hm : isMutator (opMeth op) = true) (hmem : opMeth op ∈ methodsOf cls) (hc : st.closed = false) :
    (RO.step cls st op).2 = .err .ResourceReadOnly := by
  have hsafe : Safe cls (opMeth op) = true := by
    have := ro_tables_harmless cls hcls
    unfold TableSafe at this
    rw [List.all_eq_true] at this
    exact this _ hmem
  apply ro_mutator_raises cls st op hsafe (by simp [refMutating, hm]) (by simp [hc])
  intro chars passes validates hsh
  exfalso
  have hh := safe_shape cls _ hsafe (by rw [hsh]; simp)
  rw [hsh] at hh
  simp only [harmlessShape, Bool.and_eq_true] at hh
  revert hm
  have := hh.1
  revert this
  unfold isOpener isMutator
  cases kindOf (opMeth op) with
  | none => simp
  | some k => cases k <;> simp

/-! ### examples: the hypotheses are met, the model computes -/

example : (RO.run "WrapReadOnly" { inner := State.empty, closed := false }
    [.makedir "a".toList false, .writebytes "f".toList [1], .openbin "f".toList "w".toList,
     .exists_ "f".toList]).2
    = [.err .ResourceReadOnly, .err .ResourceReadOnly, .err .ResourceReadOnly, .ok (.bool false)] := by
  decide +kernel

example : refMutating (.openbin "f".toList "a+".toList) = true ∧ refMutating (.openbin "f".toList "rb".toList) = false := by
  decide

end Fs.C04
