/-
  C06 — failures are fs.errors exceptions for a real cause and change nothing.
-/
import FsModel.Ref
import FsModel.RefAdm
import FsProofs.Lemmas.QueryLemmas

namespace Fs.C06
open Fs Fs.Ref Fs.QueryLemmas

/- ORIGINAL STATEMENT (false as written: nothing forces the root of an arbitrary `State` to be a
directory):

    theorem ref_error_truthful (s : State) (op : Op) (e : Err) (h : (step s op).2 = .err e) :
        e ∈ adm s op ∨ e = .OperationFailed

Counterexample: `s = { root := .file [], closed := false }`, `op = .remove "/"`: the reference
answers `FileExpected` (the root is no file *name*), while `adm` lists for a root that is a file
only `ResourceNotFound` and `RemoveRootError`.  This is the only failing class (root is a file and
`remove` is applied to the root); every reachable state has a directory root
(`step_root_isDir`), so the statement carries that hypothesis. -/
theorem ref_error_truthful_counterexample :
    ∃ (s : State) (op : Op) (e : Err), (step s op).2 = .err e ∧
      ¬ (e ∈ adm s op ∨ e = .OperationFailed) :=
  ⟨{ root := .file [], closed := false }, .remove ['/'], .FileExpected, by decide⟩

/-- every error the reference reports is one whose documented condition holds
(`OperationFailed` marks the loose mid-way failure of a bulk operation) -/
theorem ref_error_truthful (s : State) (op : Op) (e : Err) (hroot : s.root.isDir = true)
    (h : (step s op).2 = .err e) :
    e ∈ adm s op ∨ e = .OperationFailed := by
  cases hc : s.closed
  · rcases op_cases op with rfl | ⟨p, m, rfl⟩ | ⟨p, hp, hno⟩ | ⟨a, b, hp⟩
    · cases h
    · rw [step_openbin s p m hc] at h
      rw [adm_openbin s p m hc]
      left
      cases hv : validate p with
      | err e' =>
        rw [hv] at h
        split at h <;> simp_all [fail]
      | ok cs =>
        rw [hv] at h
        simp only
        split at h
        · next hm =>
          cases h
          cases hpm : parseBinMode m <;> simp_all [adm1]
        · exact step1_truthful s cs _ e hroot h
    · rw [step_one s op p hc hp hno] at h
      rw [adm_one s op p hc hp hno]
      left
      cases hv : validate p with
      | err e' => rw [hv] at h; simp_all [fail]
      | ok cs => rw [hv] at h; exact step1_truthful s cs _ e hroot h
    · rw [step_two s op a b hc hp] at h
      rw [adm_two s op a b hc hp]
      cases hva : validate a <;> cases hvb : validate b <;> rw [hva] at h <;> try rw [hvb] at h
      all_goals simp only at h ⊢
      · exact step2_truthful s _ _ op e h
      all_goals (left; simp_all [fail])
  · by_cases hop : op = .close
    · subst hop; cases h
    · rw [step_closed s op hop hc] at h
      rw [adm_closed s op hop hc]
      cases h; simp

/-- a failed reference step leaves the state exactly as it was -/
theorem failed_step_unchanged (s : State) (op : Op) (e : Err) (h : (step s op).2 = .err e) :
    (step s op).1 = s := by
  by_cases hop : op = .close
  · subst hop; cases h
  · exact (step_shape s op hop).err_state h

/-- nothing is admissible for an operation that has no precondition to violate -/
theorem close_never_fails (s : State) : (step s .close).2 = .ok .unit ∧ adm s .close = [] :=
  ⟨rfl, rfl⟩

/-! ### the documented condition of each class (what `adm` means) -/

theorem closed_only_when_closed (s : State) (op : Op) (h : Err.FilesystemClosed ∈ adm s op) :
    s.closed = true := by
  cases hc : s.closed
  · exfalso
    rcases op_cases op with rfl | ⟨p, m, rfl⟩ | ⟨p, hp, hno⟩ | ⟨a, b, hp⟩
    · simp [adm] at h
    · rw [adm_openbin s p m hc] at h
      cases hv : validate p with
      | err e' =>
        rw [hv] at h
        simp only at h
        rcases validate_err_cases p e' hv with rfl | rfl <;> split at h <;> simp at h
      | ok cs =>
        rw [hv] at h
        simp only [adm1, admFileArg, admFileTarget] at h
        split at h <;> simp at h
    · rcases mem_adm_one hc hp hno h with hv | ⟨cs, hv, h⟩
      · rcases validate_err_cases p _ hv with h | h <;> cases h
      · cases op <;> simp [adm1, admDirArg, admFileArg, admFileTarget] at h
        all_goals first | exact absurd rfl (hno _ _) | (split at h <;> simp at h)
    · rw [adm_two s op a b hc hp] at h
      cases hva : validate a <;> cases hvb : validate b <;> rw [hva, hvb] at h <;> simp only at h
      · cases op <;> simp [adm2, admDirArg, admFileArg, admFileTarget] at h
        all_goals (split at h <;> simp at h)
      · rcases validate_err_cases _ _ hvb with rfl | rfl <;> simp [admAny] at h
        all_goals (split at h <;> simp at h)
      · rcases validate_err_cases _ _ hva with rfl | rfl <;> simp [admAny] at h
        all_goals (split at h <;> simp at h)
      · rcases validate_err_cases _ _ hva with rfl | rfl <;>
          rcases validate_err_cases _ _ hvb with rfl | rfl <;> simp at h
  · rfl

theorem removeroot_truthful (s : State) (p : Str) (h : Err.RemoveRootError ∈ adm s (.removedir p))
    (hc : s.closed = false) : validate p = .ok [] := by
  rcases mem_adm_one hc rfl (by simp) h with hv | ⟨cs, hv, h⟩
  · rcases validate_err_cases p _ hv with h | h <;> cases h
  · simp [adm1, admDirArg] at h
    rcases h with rfl | h
    · exact hv
    · split at h <;> simp at h

theorem notempty_truthful (s : State) (p : Str) (cs : List Name) (hc : s.closed = false)
    (hv : validate p = .ok cs) (h : Err.DirectoryNotEmpty ∈ adm s (.removedir p)) :
    ∃ es, s.root.get cs = some (.dir es) ∧ es ≠ [] := by
  rcases mem_adm_one hc rfl (by simp) h with hv' | ⟨cs', hv', h⟩
  · rw [hv] at hv'; cases hv'
  · rw [hv] at hv'; cases hv'
    simp [adm1, admDirArg] at h
    split at h
    · next es heq => exact ⟨es, heq, by simpa using h⟩
    · simp at h

theorem destination_exists_truthful (s : State) (a b : Str) (ow : Bool) (ca cb : List Name)
    (hc : s.closed = false) (ha : validate a = .ok ca) (hb : validate b = .ok cb)
    (h : Err.DestinationExists ∈ adm s (.move a b ow)) :
    ow = false ∧ (s.root.get cb).isSome = true := by
  rw [adm_two s _ a b hc rfl, ha, hb] at h
  simp [adm2, admFileArg, admFileTarget] at h
  obtain ⟨h1, h2⟩ := h
  refine ⟨h2, ?_⟩
  unfold kindAt at h1
  cases hg : Node.get cb s.root <;> simp_all

theorem illegal_destination_truthful (s : State) (a b : Str) (c : Bool) (ca cb : List Name)
    (hc : s.closed = false) (ha : validate a = .ok ca) (hb : validate b = .ok cb)
    (h : Err.IllegalDestination ∈ adm s (.copydir a b c)) : ca <+: cb := by
  rw [adm_two s _ a b hc rfl, ha, hb] at h
  simp [adm2, admDirArg] at h
  exact (isPrefix_iff ca cb).1 h

theorem backref_truthful (s : State) (p : Str) (hc : s.closed = false)
    (h : Err.IllegalBackReference ∈ adm s (.listdir p)) :
    Path.normpath p = .err .IllegalBackReference := by
  rcases mem_adm_one hc rfl (by simp) h with hv | ⟨cs, hv, h⟩
  · rcases validate_err p _ hv with ⟨h, _⟩ | ⟨_, h⟩
    · cases h
    · exact h
  · simp [adm1, admDirArg] at h

theorem invalid_chars_truthful (s : State) (p : Str) (hc : s.closed = false)
    (h : Err.InvalidCharsInPath ∈ adm s (.listdir p)) : '\x00' ∈ p := by
  rcases mem_adm_one hc rfl (by simp) h with hv | ⟨cs, hv, h⟩
  · rcases validate_err p _ hv with ⟨_, h⟩ | ⟨h, _⟩
    · exact h
    · cases h
  · simp [adm1, admDirArg] at h

theorem value_error_truthful (s : State) (p m : Str) (hc : s.closed = false)
    (h : Err.ValueError ∈ adm s (.openbin p m)) : parseBinMode m = none := by
  rw [adm_openbin s p m hc] at h
  cases hv : validate p with
  | err e' =>
    rw [hv] at h
    simp only at h
    split at h
    · next hm => simpa using hm
    · rcases validate_err_cases p e' hv with rfl | rfl <;> simp at h
  | ok cs =>
    rw [hv] at h
    simp only [adm1, admFileArg, admFileTarget] at h
    split at h
    · assumption
    · simp at h

/-- a mode string is accepted iff it is non-empty, starts with r/w/x/a, uses only the
characters `rwxab+` (no `t` for binary opens), repeats no character and contains exactly one of
`r w x a` (the last two since `fix: Mode.validate rejects the mode strings io.open rejects`) -/
theorem mode_accept_iff (m : Str) :
    (parseBinMode m).isSome = true ↔
      (∃ c rest, m = c :: rest ∧ c ∈ ['r', 'w', 'x', 'a']) ∧ (∀ x ∈ m, x ∈ ['r', 'w', 'x', 'a', 'b', '+']) ∧
      m.Nodup ∧ (['r', 'w', 'x', 'a'].filter fun x => m.contains x).length = 1 := by
  cases m with
  | nil => simp [parseBinMode]
  | cons c rest =>
    have key : (∀ x ∈ c :: rest, x ∈ ['r', 'w', 'x', 'a', 'b', '+']) ↔
        ((c :: rest).all (fun x => modeValidChars.contains x) = true ∧ (c :: rest).contains 't' = false) := by
      rw [List.all_eq_true]
      constructor
      · intro h
        refine ⟨fun x hx => ?_, ?_⟩
        · simpa using ((mode_chars x).2 (h x hx)).1
        · rw [Bool.eq_false_iff]; intro ht
          have ht' : 't' ∈ c :: rest := by simpa using ht
          exact absurd (h _ ht') (by decide)
      · rintro ⟨h1, h2⟩ x hx
        refine (mode_chars x).1 ⟨by simpa using h1 x hx, ?_⟩
        rintro rfl
        have : (c :: rest).contains 't' = true := by simpa using hx
        rw [h2] at this; cases this
    have k2 : (∃ c' rest', c :: rest = c' :: rest' ∧ c' ∈ ['r', 'w', 'x', 'a']) ↔
        ['r', 'w', 'x', 'a'].contains c = true := by
      constructor
      · rintro ⟨c', rest', heq, hc⟩; cases heq; simpa using hc
      · intro h; exact ⟨c, rest, rfl, by simpa using h⟩
    rw [key, k2]
    have k3 : (['r', 'w', 'x', 'a'].filter fun x => (c :: rest).contains x).length = 1 ↔
        ((['r', 'w', 'x', 'a'].filter fun x => (c :: rest).contains x).length != 1) = false := by
      simp
    rw [k3]
    by_cases hN : (c :: rest).Nodup <;>
    cases hO : ((['r', 'w', 'x', 'a'].filter fun x => (c :: rest).contains x).length != 1) <;>
    cases hA : (c :: rest).all (fun x => modeValidChars.contains x) <;>
    cases hB : ['r', 'w', 'x', 'a'].contains c <;>
    cases hT : (c :: rest).contains 't' <;>
    simp only [parseBinMode, hA, hB, hT, hN, hO] <;> simp

example : (parseBinMode "r+b".toList).isSome = true ∧ parseBinMode "rw".toList = none ∧
    parseBinMode "r++".toList = none ∧ parseBinMode "wbb".toList = none := by decide
example : (step State.empty (.removedir "/".toList)).2 = .err .RemoveRootError := by decide
example : Err.ResourceNotFound ∈ adm State.empty (.readbytes "nope".toList) := by decide

end Fs.C06
