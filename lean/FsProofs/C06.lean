/-
  C06 — failures are fs.errors exceptions for a real cause and change nothing.
-/
import FsModel.Ref
import FsModel.RefAdm
import FsProofs.Lemmas.QueryLemmas

namespace Fs.C06
open Fs Fs.Ref

/-- every error the reference reports is one whose documented condition holds
(`OperationFailed` marks the loose mid-way failure of a bulk operation) -/
theorem ref_error_truthful (s : State) (op : Op) (e : Err) (h : (step s op).2 = .err e) :
    e ∈ adm s op ∨ e = .OperationFailed := by
  sorry

/-- a failed reference step leaves the state exactly as it was -/
theorem failed_step_unchanged (s : State) (op : Op) (e : Err) (h : (step s op).2 = .err e) :
    (step s op).1 = s := by
  sorry

/-- nothing is admissible for an operation that has no precondition to violate -/
theorem close_never_fails (s : State) : (step s .close).2 = .ok .unit ∧ adm s .close = [] := by
  sorry

/-! ### the documented condition of each class (what `adm` means) -/

theorem closed_only_when_closed (s : State) (op : Op) (h : Err.FilesystemClosed ∈ adm s op) :
    s.closed = true := by
  sorry

theorem removeroot_truthful (s : State) (p : Str) (h : Err.RemoveRootError ∈ adm s (.removedir p))
    (hc : s.closed = false) : validate p = .ok [] := by
  sorry

theorem notempty_truthful (s : State) (p : Str) (cs : List Name) (hc : s.closed = false)
    (hv : validate p = .ok cs) (h : Err.DirectoryNotEmpty ∈ adm s (.removedir p)) :
    ∃ es, s.root.get cs = some (.dir es) ∧ es ≠ [] := by
  sorry

theorem destination_exists_truthful (s : State) (a b : Str) (ow : Bool) (ca cb : List Name)
    (hc : s.closed = false) (ha : validate a = .ok ca) (hb : validate b = .ok cb)
    (h : Err.DestinationExists ∈ adm s (.move a b ow)) :
    ow = false ∧ (s.root.get cb).isSome = true := by
  sorry

theorem illegal_destination_truthful (s : State) (a b : Str) (c : Bool) (ca cb : List Name)
    (hc : s.closed = false) (ha : validate a = .ok ca) (hb : validate b = .ok cb)
    (h : Err.IllegalDestination ∈ adm s (.copydir a b c)) : ca <+: cb := by
  sorry

theorem backref_truthful (s : State) (p : Str) (hc : s.closed = false)
    (h : Err.IllegalBackReference ∈ adm s (.listdir p)) :
    Path.normpath p = .err .IllegalBackReference := by
  sorry

theorem invalid_chars_truthful (s : State) (p : Str) (hc : s.closed = false)
    (h : Err.InvalidCharsInPath ∈ adm s (.listdir p)) : '\x00' ∈ p := by
  sorry

theorem value_error_truthful (s : State) (p m : Str) (hc : s.closed = false)
    (h : Err.ValueError ∈ adm s (.openbin p m)) : parseBinMode m = none := by
  sorry

/-- a mode string is accepted iff it is non-empty, starts with r/w/x/a, uses only the
characters `rwxab+` (no `t` for binary opens) -/
theorem mode_accept_iff (m : Str) :
    (parseBinMode m).isSome = true ↔
      (∃ c rest, m = c :: rest ∧ c ∈ ['r', 'w', 'x', 'a']) ∧ (∀ x ∈ m, x ∈ ['r', 'w', 'x', 'a', 'b', '+']) := by
  sorry

example : (step State.empty (.removedir "/".toList)).2 = .err .RemoveRootError := by decide
example : Err.ResourceNotFound ∈ adm State.empty (.readbytes "nope".toList) := by decide

end Fs.C06
