/-
  FTPFS, as coded (FsModel.Ftp = fs/ftpfs.py + the fs/base.py defaults it inherits, as programs over
  FTP commands), run against ANY conforming server (FsModel.FtpServer: the command clauses of `exec`, a
  profile satisfying `Conforming`), implements the reference semantics (FsModel.Ref) — part of C01 and C06.

  "For the names the listing formats carry faithfully": the refinement is conditional on
    * `TreeOk cfg s.root` — every name in the server's tree is one the variant's listing format (and the
      transport) carries: no CR / LF (C20's `NoEol`; `WFName` follows from `Node.wf`), on the LIST variant also
      C20's `WFLinuxName` (no leading white space); every file size can be stated as a number `int()` accepts;
    * `ArgOk cfg p` for every path argument — no CR / LF (they cannot travel in a command line; FTPFS
      declares them invalid, the reference does not) and components of the same kind.
  What happens otherwise is stated by the `…_counterexample` theorems at the end: the format limit
  C20 already records and the protocol limit.  The one genuine defect of the LIBRARY this model exposed
  (`getinfo` cut the MLST reply with `str.splitlines()`) is repaired in /repo (79535c4); the model follows,
  the clause it had forced on `NameOk` is gone, and `ftp_mlst_linebreak_repaired` is the regression theorem.
-/
import FsModel.Ref
import FsModel.RefAdm
import FsModel.Mem
import FsModel.FtpServer
import FsModel.Ftp
import FsProofs.Lemmas.TreeLemmas
import FsProofs.Lemmas.MemLemmas
import FsProofs.Lemmas.QueryLemmas
import FsProofs.Lemmas.FtpServerLemmas
import FsProofs.Lemmas.FtpModelLemmas
import FsProofs.Lemmas.FtpStepLemmas
import FsProofs.C06
import FsProofs.C20
import FsProofs.MemRefines

namespace Fs.FtpRefines
open Fs Fs.Path Fs.Ref Fs.FtpParse Fs.FtpServer Fs.Ftp Fs.MemLemmas
open Fs.FtpServerLemmas Fs.FtpModelLemmas Fs.FtpStepLemmas
set_option linter.unusedSimpArgs false
set_option linter.unusedVariables false

/-! ### the excluded classes -/

/-- the calls in which FTPFS is known to deviate from the contract: base-class `movedir` into a proper
    ancestor of the source (`MemRefines.knownDeviation`, shared with MemoryFS and OSFS).  (The second class this
    definition used to have — the error CLASS of the inherited `removetree` on a path that both contains NUL and
    climbs: it normalised before it validated — is gone since /repo 433aea4,
    `ftp_removetree_nul_backref_repaired`.) -/
def knownDeviation (op : Op) : Prop := MemRefines.knownDeviation op

/-! ### from per-operation agreement to the refinement statement -/

theorem refines_of_eq (s : State) (op : Op) (m : State × Out) (hd : s.root.isDir = true)
    (hl : (Ref.step s op).2 ≠ .err .OperationFailed) (h : m = Ref.step s op) :
    MemRefines.Refines s op m (Ref.step s op) := by
  rw [h]
  refine ⟨rfl, fun _ => rfl, fun e he => ⟨?_, C06.failed_step_unchanged s op e he⟩⟩
  rcases C06.ref_error_truthful s op e hd he with h' | h'
  · exact h'
  · subst h'; exact absurd he hl

theorem refines_of_agree (s : State) (op : Op) (m : State × Out) (A : List Err) (hd : s.root.isDir = true)
    (hl : (Ref.step s op).2 ≠ .err .OperationFailed) (hA : A = adm s op)
    (h : Agree A s m (Ref.step s op)) :
    MemRefines.Refines s op m (Ref.step s op) := by
  rcases h with h | ⟨e, e', hm, hr, he⟩
  · exact refines_of_eq s op m hd hl h
  · rw [hm]
    refine ⟨by simp [Res.isOk, hr], fun h => by simp [hr, Res.isOk] at h, ?_⟩
    intro x hx
    simp only [Res.err.injEq] at hx
    subst hx
    exact ⟨hA ▸ he, rfl⟩

/-! ### valid paths: operation by operation -/

/-- one-path operations other than `openbin`, valid path -/
theorem ftp_one {cfg : Profile} (t : Node) (h : Hyp cfg t) (op : Op) (p : Str) (cs : List Name)
    (hp : op.paths = [p]) (hno : ∀ q m, op ≠ .openbin q m) (hv : Ref.validate p = .ok cs) (ha : ArgOk cfg p) :
    Agree (adm1 t cs op) ⟨t, false⟩ (Ftp.step (exec cfg) cfg.cy ⟨t, false⟩ op) (step1 ⟨t, false⟩ cs op) := by
  cases op with
  | exists_ q => simp only [Op.paths, List.cons.injEq, and_true] at hp; subst hp; exact Or.inl (ftp_exists t _ cs h hv ha)
  | isdir q => simp only [Op.paths, List.cons.injEq, and_true] at hp; subst hp; exact Or.inl (ftp_isdir t _ cs h hv ha)
  | isfile q => simp only [Op.paths, List.cons.injEq, and_true] at hp; subst hp; exact Or.inl (ftp_isfile t _ cs h hv ha)
  | listdir q => simp only [Op.paths, List.cons.injEq, and_true] at hp; subst hp; exact Or.inl (ftp_listdir t _ cs h hv ha)
  | getsize q => simp only [Op.paths, List.cons.injEq, and_true] at hp; subst hp; exact Or.inl (ftp_getsize t _ cs h hv ha)
  | gettype q => simp only [Op.paths, List.cons.injEq, and_true] at hp; subst hp; exact Or.inl (ftp_gettype t _ cs h hv ha)
  | isempty q => simp only [Op.paths, List.cons.injEq, and_true] at hp; subst hp; exact Or.inl (ftp_isempty t _ cs h hv ha)
  | getinfo q => simp only [Op.paths, List.cons.injEq, and_true] at hp; subst hp; exact Or.inl (ftp_getinfo t _ cs h hv ha)
  | readbytes q => simp only [Op.paths, List.cons.injEq, and_true] at hp; subst hp; exact Or.inl (ftp_readbytes t _ cs h hv ha)
  | makedir q r => simp only [Op.paths, List.cons.injEq, and_true] at hp; subst hp; exact Or.inl (ftp_makedir t _ cs h hv ha r)
  | makedirs q r =>
    simp only [Op.paths, List.cons.injEq, and_true] at hp; subst hp
    have hm := mem_makedirs ⟨t, false⟩ _ cs rfl hv h.isDir
    simp only [Mem.step] at hm
    rw [ftp_makedirs_eq_mem t _ cs h hv ha]
    exact hm r
  | writebytes q d => simp only [Op.paths, List.cons.injEq, and_true] at hp; subst hp; exact Or.inl (ftp_writebytes t _ cs h hv ha d)
  | appendbytes q d => simp only [Op.paths, List.cons.injEq, and_true] at hp; subst hp; exact Or.inl (ftp_appendbytes t _ cs h hv ha d)
  | create q w => simp only [Op.paths, List.cons.injEq, and_true] at hp; subst hp; exact Or.inl (ftp_create t _ cs h hv ha w)
  | touch q => simp only [Op.paths, List.cons.injEq, and_true] at hp; subst hp; exact Or.inl (ftp_touch t _ cs h hv ha)
  | settimes q => simp only [Op.paths, List.cons.injEq, and_true] at hp; subst hp; exact Or.inl (ftp_settimes t _ cs h hv ha)
  | openbin q m => exact absurd rfl (hno _ _)
  | remove q => simp only [Op.paths, List.cons.injEq, and_true] at hp; subst hp; exact Or.inl (ftp_remove t _ cs h hv ha)
  | removedir q => simp only [Op.paths, List.cons.injEq, and_true] at hp; subst hp; exact Or.inl (ftp_removedir t _ cs h hv ha)
  | removetree q => simp only [Op.paths, List.cons.injEq, and_true] at hp; subst hp; exact Or.inl (ftp_removetree t _ cs h hv ha)
  | move a b o => simp [Op.paths] at hp
  | copy a b o => simp [Op.paths] at hp
  | movedir a b o => simp [Op.paths] at hp
  | copydir a b o => simp [Op.paths] at hp
  | close => simp [Op.paths] at hp

/-- two-path operations, valid paths -/
theorem ftp_two {cfg : Profile} (t : Node) (h : Hyp cfg t) (op : Op) (p q : Str) (a b : List Name)
    (hp : op.paths = [p, q]) (hk : ¬ MemRefines.knownDeviation op)
    (hva : Ref.validate p = .ok a) (hvb : Ref.validate q = .ok b) (hap : ArgOk cfg p) (haq : ArgOk cfg q) :
    Agree (adm2 t a b op) ⟨t, false⟩ (Ftp.step (exec cfg) cfg.cy ⟨t, false⟩ op) (step2 ⟨t, false⟩ a b op) := by
  cases op <;> simp only [Op.paths, List.cons.injEq, and_true, reduceCtorEq, and_false] at hp
  all_goals obtain ⟨rfl, rfl⟩ := hp
  · exact ftp_move t _ _ a b h hva hvb hap haq _
  · exact Or.inl (ftp_copy t _ _ a b h hva hvb hap haq _)
  · refine ftp_movedir t _ _ a b h hva hvb hap haq _ ?_
    intro hh
    exact hk ⟨a, b, hva, hvb, hh.1, hh.2⟩
  · exact Or.inl (ftp_copydir t _ _ a b h hva hvb hap haq _)

/-! ### invalid paths and invalid modes: the same failure as the reference -/

theorem ftp_step_invalid1 {cfg : Profile} (t : Node) (h : Hyp cfg t) (op : Op) (p : Str) (e : Err)
    (hp : op.paths = [p]) (hno : ∀ q m, op ≠ .openbin q m) (hv : Ref.validate p = .err e) (hn : NoCrLf p) :
    Ftp.step (exec cfg) cfg.cy ⟨t, false⟩ op = fail ⟨t, false⟩ e := by
  have hfv : Ftp.validate p = .err e := by rw [validate_eq p hn, hv]
  rw [step_open ⟨t, false⟩ h rfl op (by rintro rfl; simp [Op.paths] at hp)]
  cases op with
  | openbin q m => exact absurd rfl (hno _ _)
  | move a b o => simp [Op.paths] at hp
  | copy a b o => simp [Op.paths] at hp
  | movedir a b o => simp [Op.paths] at hp
  | copydir a b o => simp [Op.paths] at hp
  | close => simp [Op.paths] at hp
  | _ =>
    simp only [Op.paths, List.cons.injEq, and_true] at hp; subst hp
    simp [opProg, run_mapRes, run_bind, withPath, hfv, fail, readbytes, makedir, makedirs, writebytes, appendbytes, openbin,
      mode_ab, create, touch, setinfo, remove, removedir, removetree]

theorem ftp_step_invalid_openbin {cfg : Profile} (t : Node) (h : Hyp cfg t) (p mode : Str) (m : Mode) (e : Err)
    (hm : parseBinMode mode = some m) (hv : Ref.validate p = .err e) (hn : NoCrLf p) :
    Ftp.step (exec cfg) cfg.cy ⟨t, false⟩ (.openbin p mode) = fail ⟨t, false⟩ e := by
  have hfv : Ftp.validate p = .err e := by rw [validate_eq p hn, hv]
  rw [step_open ⟨t, false⟩ h rfl _ (by simp)]
  simp [opProg, run_mapRes, openbin, hm, hfv, fail]

theorem ftp_step_badmode {cfg : Profile} (t : Node) (h : Hyp cfg t) (p mode : Str) (hm : parseBinMode mode = none) :
    Ftp.step (exec cfg) cfg.cy ⟨t, false⟩ (.openbin p mode) = fail ⟨t, false⟩ .ValueError := by
  rw [step_open ⟨t, false⟩ h rfl _ (by simp)]
  simp [opProg, run_mapRes, openbin, hm, fail]

theorem ftp_step_invalid2 {cfg : Profile} (t : Node) (h : Hyp cfg t) (op : Op) (p q : Str) (e : Err)
    (hp : op.paths = [p, q]) (hnp : NoCrLf p) (hnq : NoCrLf q)
    (hv : Ref.validate p = .err e ∨ ((∃ a, Ref.validate p = .ok a) ∧ Ref.validate q = .err e)) :
    Ftp.step (exec cfg) cfg.cy ⟨t, false⟩ op = fail ⟨t, false⟩ e := by
  rw [step_open ⟨t, false⟩ h rfl op (by rintro rfl; simp [Op.paths] at hp)]
  have key : ∀ (x y : Str), x = p → y = q →
      (Ftp.validate x = .err e ∨ (∃ a, Ftp.validate x = .ok a ∧ Ftp.validate y = .err e)) := by
    intro x y hx hy
    subst hx; subst hy
    rcases hv with hv | ⟨⟨a, ha⟩, hv⟩
    · exact Or.inl (by rw [validate_eq _ hnp, hv])
    · exact Or.inr ⟨a, by rw [validate_eq _ hnp, ha], by rw [validate_eq _ hnq, hv]⟩
  cases op with
  | move a b o =>
    simp only [Op.paths, List.cons.injEq, and_true] at hp
    rcases key a b hp.1 hp.2 with hfv | ⟨x, hfa, hfv⟩
    · simp [opProg, run_mapRes, move, hfv, fail]
    · simp [opProg, run_mapRes, move, hfa, hfv, fail]
  | copy a b o =>
    simp only [Op.paths, List.cons.injEq, and_true] at hp
    rcases key a b hp.1 hp.2 with hfv | ⟨x, hfa, hfv⟩
    · simp [opProg, run_mapRes, copy, hfv, fail]
    · simp [opProg, run_mapRes, copy, hfa, hfv, fail]
  | movedir a b o =>
    simp only [Op.paths, List.cons.injEq, and_true] at hp
    rcases key a b hp.1 hp.2 with hfv | ⟨x, hfa, hfv⟩
    · simp [opProg, run_mapRes, movedir, hfv, fail]
    · simp [opProg, run_mapRes, movedir, hfa, hfv, fail]
  | copydir a b o =>
    simp only [Op.paths, List.cons.injEq, and_true] at hp
    rcases key a b hp.1 hp.2 with hfv | ⟨x, hfa, hfv⟩
    · simp [opProg, run_mapRes, copydir, hfv, fail]
    · simp [opProg, run_mapRes, copydir, hfa, hfv, fail]
  | _ => simp [Op.paths] at hp

/-! ### the refinement -/

/-- REFINEMENT (one step).  For every conforming server profile (MLSD and LIST variant alike), every open
    state whose tree is well-formed and carried faithfully by that variant's listing format, and every
    operation on faithfully carried path arguments outside the known deviations whose reference outcome is
    not the loose mid-way failure: FTPFS — as programs over FTP commands, the server's listings rendered
    and parsed back on the way — gives the same verdict; on success the same value and the same resulting
    server tree (exactly, hence a fortiori up to entry order); on failure an error class in `Ref.adm` and
    an unchanged server tree. -/
theorem ftp_refines_ref (cfg : Profile) (hcf : Conforming cfg) (s : State) (op : Op) (hc : s.closed = false)
    (hd : s.root.isDir = true) (hwf : s.root.wf = true) (hok : TreeOk cfg s.root)
    (hargs : ∀ p ∈ op.paths, ArgOk cfg p) (hk : ¬ knownDeviation op)
    (hl : (Ref.step s op).2 ≠ .err .OperationFailed) :
    ((Ftp.step (exec cfg) cfg.cy s op).2.isOk = (Ref.step s op).2.isOk) ∧
    ((Ref.step s op).2.isOk = true → Ftp.step (exec cfg) cfg.cy s op = Ref.step s op) ∧
    (∀ e, (Ftp.step (exec cfg) cfg.cy s op).2 = .err e → e ∈ adm s op ∧ (Ftp.step (exec cfg) cfg.cy s op).1 = s) := by
  change MemRefines.Refines s op (Ftp.step (exec cfg) cfg.cy s op) (Ref.step s op)
  obtain ⟨t, c⟩ := s
  simp only at hc hd hwf hok
  subst hc
  have h : Hyp cfg t := ⟨hcf, hd, hwf, hok⟩
  have hk1 : ¬ MemRefines.knownDeviation op := hk
  rcases QueryLemmas.op_cases op with rfl | ⟨p, m, rfl⟩ | ⟨p, hp, hno⟩ | ⟨p, q, hp⟩
  · exact refines_of_eq _ _ _ hd hl rfl
  · have hap : ArgOk cfg p := hargs p (by simp [Op.paths])
    cases hm : parseBinMode m with
    | none =>
      apply refines_of_eq _ _ _ hd hl
      rw [ftp_step_badmode t h p m hm, QueryLemmas.step_openbin _ p m rfl, hm]; rfl
    | some md =>
      cases hv : Ref.validate p with
      | err e =>
        apply refines_of_eq _ _ _ hd hl
        rw [ftp_step_invalid_openbin t h p m md e hm hv hap.1, QueryLemmas.step_openbin _ p m rfl, hm, hv]
        rfl
      | ok cs =>
        apply refines_of_eq _ _ _ hd hl
        rw [QueryLemmas.step_openbin _ p m rfl, hm, hv]
        exact ftp_openbin t p cs h hv hap m md hm
  · have hap : ArgOk cfg p := hargs p (by rw [hp]; simp)
    cases hv : Ref.validate p with
    | err e =>
      apply refines_of_eq _ _ _ hd hl
      rw [ftp_step_invalid1 t h op p e hp hno hv hap.1, QueryLemmas.step_one _ op p rfl hp hno, hv]
    | ok cs =>
      have hs : Ref.step ⟨t, false⟩ op = step1 ⟨t, false⟩ cs op := by
        rw [QueryLemmas.step_one _ op p rfl hp hno, hv]
      refine refines_of_agree _ _ _ (adm1 t cs op) hd hl ?_ ?_
      · rw [QueryLemmas.adm_one _ op p rfl hp hno, hv]
      · rw [hs]; exact ftp_one t h op p cs hp hno hv hap
  · have hap : ArgOk cfg p := hargs p (by rw [hp]; simp)
    have haq : ArgOk cfg q := hargs q (by rw [hp]; simp)
    cases hva : Ref.validate p with
    | err e =>
      apply refines_of_eq _ _ _ hd hl
      rw [ftp_step_invalid2 t h op p q e hp hap.1 haq.1 (Or.inl hva), QueryLemmas.step_two _ op p q rfl hp, hva]
    | ok a =>
      cases hvb : Ref.validate q with
      | err e =>
        apply refines_of_eq _ _ _ hd hl
        rw [ftp_step_invalid2 t h op p q e hp hap.1 haq.1 (Or.inr ⟨⟨a, hva⟩, hvb⟩),
          QueryLemmas.step_two _ op p q rfl hp, hva, hvb]
      | ok b =>
        have hs : Ref.step ⟨t, false⟩ op = step2 ⟨t, false⟩ a b op := by
          rw [QueryLemmas.step_two _ op p q rfl hp, hva, hvb]
        refine refines_of_agree _ _ _ (adm2 t a b op) hd hl ?_ ?_
        · rw [QueryLemmas.adm_two _ op p q rfl hp, hva, hvb]
        · rw [hs]; exact ftp_two t h op p q a b hp hk1 hva hvb hap haq

/-- hence on every step that succeeds in the reference FTPFS returns exactly the reference's value and
    leaves exactly the reference's tree on the server (lifted to histories by
    `C01.stepwise_agreement_lifts`) -/
theorem ftp_refines_ref_ok_steps (cfg : Profile) (hcf : Conforming cfg) (s : State) (op : Op) (hc : s.closed = false)
    (hd : s.root.isDir = true) (hwf : s.root.wf = true) (hok : TreeOk cfg s.root)
    (hargs : ∀ p ∈ op.paths, ArgOk cfg p) (hk : ¬ knownDeviation op) (v : Val) (hv : (Ref.step s op).2 = .ok v) :
    Ftp.step (exec cfg) cfg.cy s op = Ref.step s op :=
  (ftp_refines_ref cfg hcf s op hc hd hwf hok hargs hk (by rw [hv]; exact fun h => by cases h)).2.1
    (by rw [hv]; rfl)

/-- C06 for FTPFS: a failing call reports a class whose documented condition holds — whatever the reply
    codes `ftp_errors` and the `550` analyses of `makedir`, `removedir`, `upload`, `readbytes`, `setinfo` had
    to work with — and changes nothing on the server -/
theorem ftp_failure_truthful_and_harmless (cfg : Profile) (hcf : Conforming cfg) (s : State) (op : Op) (e : Err)
    (hc : s.closed = false) (hd : s.root.isDir = true) (hwf : s.root.wf = true) (hok : TreeOk cfg s.root)
    (hargs : ∀ p ∈ op.paths, ArgOk cfg p) (hk : ¬ knownDeviation op)
    (hl : (Ref.step s op).2 ≠ .err .OperationFailed) (he : (Ftp.step (exec cfg) cfg.cy s op).2 = .err e) :
    e ∈ adm s op ∧ (Ftp.step (exec cfg) cfg.cy s op).1 = s :=
  (ftp_refines_ref cfg hcf s op hc hd hwf hok hargs hk hl).2.2 e he

/-- a closed FTPFS never sends a command, never changes anything, and every call but `close` fails (a mode
    error comes first in `openbin`, as in the code) — against ANY
    server -/
theorem ftp_closed_is_final (X : Server) (cy : Nat) (s : State) (op : Op) (hc : s.closed = true) (hop : op ≠ .close) :
    (Ftp.step X cy s op).1 = s ∧ (∃ e, (Ftp.step X cy s op).2 = .err e) ∧ Ftp.stepTrace X cy s op = [] := by
  cases op <;> first
    | exact absurd rfl hop
    | simp [Ftp.step, Ftp.stepTrace, hc]

/-! ### the listing round trip: server renders → library parses → the same entries -/

/-- MLSD: whatever facts the profile adds, the lines a conforming server sends for a directory are parsed
    back (`_parse_mlsx`) into exactly its entries — name, type, size — in order.  Composition of the
    server's renderer (`FtpServer.mlsxLine` = C20's `renderMlsd` over `type`, `size` and the profile's facts)
    with C20's `mlsd_roundtrip`. -/
theorem ftp_listing_roundtrip (cfg : Profile) (hcf : Conforming cfg) (es : Ents)
    (h : ∀ kv ∈ es, WFName kv.1 ∧ NoEol kv.1 ∧ (decimal (FtpServer.sizeOf cfg kv.2)).length ≤ maxStrDigits) :
    ∃ infos, parseMlsx (es.map fun kv => mlsxLine cfg kv.1 kv.2) = .ok infos ∧
      infos.map (fun i => (i.name, i.isDir, i.size)) = es.map fun kv => (kv.1, kv.2.isDir, FtpServer.sizeOf cfg kv.2) :=
  mlsd_listing cfg hcf es h

/-- LIST: the same for `ftp_parse.parse` over C20's `renderLinux` (`linux_line_roundtrip`), for the names
    C20's `WFLinuxName` admits -/
theorem ftp_listing_roundtrip_list (cfg : Profile) (hcf : Conforming cfg) (es : Ents)
    (h : ∀ kv ∈ es, Stops isSpace kv.1 ∧ '\n' ∉ kv.1 ∧ (decimal (FtpServer.sizeOf cfg kv.2)).length ≤ maxStrDigits) :
    ∃ infos, parse cfg.cy (es.map fun kv => listLine cfg kv.1 kv.2) = .ok infos ∧
      infos.map Ftp.listEnt = es.map fun kv => (kv.1, kv.2.isDir, FtpServer.sizeOf cfg kv.2) :=
  list_listing cfg hcf es h

/-- MLST: the control reply, cut with `response.split("\n")[1:-1]` as the library does since 79535c4, yields the
    one entry named like the last component of the path — for EVERY path whose components contain no CR / LF,
    whatever else they contain (VT, FF, FS, GS, RS, NEL, LS, PS included: `ftp_mlst_linebreak_repaired`) -/
theorem ftp_mlst_roundtrip (cfg : Profile) (hcf : Conforming cfg) (p : List Name) (n : Node) (hne : p ≠ [])
    (hcl : ∀ c ∈ p, cleanName c = true) (hp : ∀ c ∈ p, NoCrLf c)
    (hsz : (decimal (FtpServer.sizeOf cfg n)).length ≤ maxStrDigits) :
    ∃ i, parseMlsx (((splitOn '\n' (mlstText cfg p n)).drop 1).dropLast) = .ok [i] ∧
      (i.name, i.isDir, i.size) = (p.getLast?.getD [], n.isDir, FtpServer.sizeOf cfg n) :=
  mlst_reply cfg hcf p n hne hcl hp hsz

/-- FEAT: the library learns exactly the feature lines the server sent, so `supports_mlst` is the variant -/
theorem ftp_feat_roundtrip (cfg : Profile) (hcf : Conforming cfg) (t : Node) :
    Ftp.run (exec cfg) features t = (t, allFeats cfg) ∧
    (dictGet kMLST (allFeats cfg)).isSome = cfg.mlsd ∧ (dictGet kMFMT (allFeats cfg)).isSome = cfg.mfmt :=
  ⟨run_features cfg hcf t, supports_mlst cfg hcf, supports_mfmt cfg hcf⟩

/-- what `getinfo` / `scandir` find is what is there: the two queries every other method is built on
    (MLST path and LIST path of `getinfo`, with its climb through the parents; MLSD path of `scandir` with its
    fall-through to LIST and its `501` analysis) -/
theorem ftp_queries_exact (cfg : Profile) (hcf : Conforming cfg) (t : Node) (hd : t.isDir = true) (hwf : t.wf = true)
    (hok : TreeOk cfg t) (cs : List Name) (hcl : ∀ c ∈ cs, cleanName c = true) (hn : ∀ c ∈ cs, NameOk cfg c) :
    Ftp.run (exec cfg) (getinfoP cfg.cy cfg.mlsd cs) t = (t, infoSpec cfg t cs) ∧
    Ftp.run (exec cfg) (scandirC cfg.cy cfg.mlsd cs) t = (t, scandirSpec cfg t cs) :=
  ⟨run_getinfoP ⟨hcf, hd, hwf, hok⟩ cs ⟨hcl, hn⟩, run_scandirC ⟨hcf, hd, hwf, hok⟩ cs ⟨hcl, hn⟩⟩

/-! ### the hypotheses are satisfiable: pyftpdlib's profile conforms -/


/-- the FEAT lines of pyftpdlib's profile, as a closed term -/
def pyFeats (mlsd : Bool) : List (Str × Str) := allFeats (pyftpdlib mlsd 0)

theorem allFeats_py (mlsd : Bool) (cy : Nat) : allFeats (pyftpdlib mlsd cy) = pyFeats mlsd := rfl

/-- the profile the driver and the harness use (`FtpServer.pyftpdlib`: what pyftpdlib 1.5.10 says, with fixed
    time stamps) satisfies every named assumption, in both variants and whatever the year -/
theorem pyftpdlib_conforming (mlsd : Bool) (cy : Nat) : Conforming (pyftpdlib mlsd cy) where
  feat_extra := by simp only [pyftpdlib]; decide
  feat_keys := by rw [allFeats_py]; cases mlsd <;> decide
  feat_text := by rw [allFeats_py]; unfold NoBreak; cases mlsd <;> decide
  feat_nodup := by rw [allFeats_py]; cases mlsd <;> decide
  facts_wf := by
    intro name n kv hkv
    simp only [pyftpdlib, List.mem_cons, List.mem_nil_iff, or_false] at hkv
    rcases hkv with rfl | rfl
    · exact ⟨by decide, by decide, by decide, by decide, by decide,
        ⟨fun c r h => by cases h; decide, fun c r h => by cases h; decide⟩,
        ⟨fun c r h => by cases h; decide, fun c r h => by cases h; decide⟩⟩
    · cases n.isDir
      · exact ⟨by decide, by decide, by decide, by decide, by decide,
          ⟨fun c r h => by cases h; decide, fun c r h => by cases h; decide⟩,
          ⟨fun c r h => by cases h; decide, fun c r h => by cases h; decide⟩⟩
      · exact ⟨by decide, by decide, by decide, by decide, by decide,
          ⟨fun c r h => by cases h; decide, fun c r h => by cases h; decide⟩,
          ⟨fun c r h => by cases h; decide, fun c r h => by cases h; decide⟩⟩
  facts_nodup := by
    intro name n
    simp only [entryFacts, pyftpdlib, List.map_cons, List.map_nil]
    decide
  facts_line := by
    intro name n kv hkv
    simp only [pyftpdlib, List.mem_cons, List.mem_nil_iff, or_false] at hkv
    rcases hkv with rfl | rfl
    · exact ⟨by decide, by decide⟩
    · cases n.isDir <;> exact ⟨by decide, by decide⟩
  dir_size := by simp only [pyftpdlib]; decide
  list_perms := by intro n; simp only [pyftpdlib]; cases n.isDir <;> decide
  list_links := by intro n; simp only [pyftpdlib]; decide
  list_uid := ⟨⟨'r', "oot".toList, [], rfl, by decide, by decide, Or.inl rfl⟩⟩
  list_gid := ⟨⟨'r', "oot".toList, [], rfl, by decide, by decide, Or.inl rfl⟩⟩
  list_time := by simp only [pyftpdlib, wfLTime]; decide

theorem argOk_a (cfg : Profile) : ArgOk cfg "a".toList := by
  refine ⟨⟨by decide, by decide⟩, ?_⟩
  intro cs hcs
  have h2 : Ref.validate "a".toList = .ok ["a".toList] := by decide
  rw [h2] at hcs
  cases hcs
  intro c hc
  simp only [List.mem_singleton] at hc
  subst hc
  exact ⟨⟨by decide, by decide⟩, fun _ => fun c r h => by cases h; decide⟩

/-- … so `ftp_refines_ref` applies to it: e.g. on the empty server, for `makedir("a")`, both variants -/
example (mlsd : Bool) : ∃ cfg s op, Conforming cfg ∧ cfg.mlsd = mlsd ∧ s.closed = false ∧ s.root.isDir = true ∧
    s.root.wf = true ∧ TreeOk cfg s.root ∧ (∀ p ∈ op.paths, ArgOk cfg p) ∧ ¬ knownDeviation op ∧
    (Ref.step s op).2 ≠ .err .OperationFailed := by
  refine ⟨pyftpdlib mlsd 2026, State.empty, .makedir "a".toList false, pyftpdlib_conforming mlsd 2026, rfl, rfl, rfl, rfl,
    treeOk_emptyDir _, ?_, ?_, by decide⟩
  · intro p hp
    simp only [Op.paths, List.mem_singleton] at hp
    subst hp
    exact argOk_a _
  · exact fun h => h

/-! ### outside the hypotheses: what the limits of the protocol and of the listing formats look like
(and the regression theorem for the one deviation that was the LIBRARY's) -/

/-- bytes of the file at a path, if there is one -/
def fileAt (t : Node) (q : List Name) : Option Bytes :=
  match t.get q with
  | some (.file b) => some b
  | _ => none

/-- PROTOCOL LIMIT (`ArgOk`: no CR / LF).  A command line cannot carry CR or LF, so FTPFS declares them
    invalid path characters (79da638) and refuses the path before anything is sent; the reference, like
    every other backend, has no such rule -/
theorem ftp_crlf_path_counterexample :
    (Ftp.step (exec (pyftpdlib true 2026)) 2026 State.empty (.exists_ "a\rb".toList)).2 = .err .InvalidCharsInPath ∧
    (Ftp.step (exec (pyftpdlib false 2026)) 2026 State.empty (.makedir "a\nb".toList false)).2 =
      .err .InvalidCharsInPath ∧
    (Ref.step State.empty (.exists_ "a\rb".toList)).2 = .ok (.bool false) ∧
    (Ref.step State.empty (.makedir "a\nb".toList false)).2 = .ok .unit := by
  decide

/-- FORMAT LIMIT (`NameOk`, LIST variant = C20's `WFLinuxName.start`).  A LIST line cannot tell a leading
    blank of a name from the column separator: the file ` f` is listed as `f`, so it does not exist for
    `getinfo`; and `makedir(" d")` creates the directory, then fails in its final `opendir` — a failing call
    that changed the server -/
theorem ftp_list_leading_blank_counterexample :
    let t : Node := .dir [(" f".toList, .file [1])]
    (Ftp.step (exec (pyftpdlib false 2026)) 2026 ⟨t, false⟩ (.exists_ " f".toList)).2 = .ok (.bool false) ∧
    (Ref.step ⟨t, false⟩ (.exists_ " f".toList)).2 = .ok (.bool true) ∧
    (Ftp.step (exec (pyftpdlib false 2026)) 2026 State.empty (.makedir " d".toList false)).2 = .err .ResourceNotFound ∧
    kindAt (Ftp.step (exec (pyftpdlib false 2026)) 2026 State.empty (.makedir " d".toList false)).1.root [" d".toList] =
      some true ∧
    (Ref.step State.empty (.makedir " d".toList false)).2 = .ok .unit ∧
    -- the MLSD variant carries the name (ec30a14)
    (Ftp.step (exec (pyftpdlib true 2026)) 2026 ⟨t, false⟩ (.exists_ " f".toList)).2 = .ok (.bool true) := by
  decide

set_option maxRecDepth 100000 in
/-- REPAIRED (was `ftp_mlst_linebreak_counterexample`, finding `C01-ftpfs-mlst-reply-splitlines`, /repo 79535c4).
    `FTPFS.getinfo` used to cut the MLST reply with `str.splitlines()`, which also breaks at VT, FF, FS, GS, RS, NEL,
    LS and PS: for the directory `a<FF>b` it reported a FILE named `b":` of size 0, `isdir` was false.  Cut at `\n`
    only, the former witnesses give the reference's answers, on both variants (and `ftp_mlst_roundtrip` /
    `ftp_refines_ref` hold for every such name: nothing about line-break characters is assumed any more) -/
theorem ftp_mlst_linebreak_repaired :
    let t : Node := .dir [("a\x0cb".toList, .dir []), ("a\u2028b".toList, .file [1, 2, 3])]
    (Ftp.step (exec (pyftpdlib true 2026)) 2026 ⟨t, false⟩ (.isdir "a\x0cb".toList)).2 = .ok (.bool true) ∧
    (Ftp.step (exec (pyftpdlib true 2026)) 2026 ⟨t, false⟩ (.getinfo "a\x0cb".toList)).2 =
      .ok (.info "a\x0cb".toList true 0) ∧
    (Ftp.step (exec (pyftpdlib true 2026)) 2026 ⟨t, false⟩ (.getsize "a\u2028b".toList)).2 = .ok (.nat 3) ∧
    (Ftp.step (exec (pyftpdlib true 2026)) 2026 ⟨t, false⟩ (.listdir "/".toList)).2 =
      .ok (.names ["a\x0cb".toList, "a\u2028b".toList]) ∧
    (Ref.step ⟨t, false⟩ (.isdir "a\x0cb".toList)).2 = .ok (.bool true) ∧
    (Ref.step ⟨t, false⟩ (.getinfo "a\x0cb".toList)).2 = .ok (.info "a\x0cb".toList true 0) ∧
    (Ref.step ⟨t, false⟩ (.getsize "a\u2028b".toList)).2 = .ok (.nat 3) ∧
    (Ftp.step (exec (pyftpdlib false 2026)) 2026 ⟨t, false⟩ (.isdir "a\x0cb".toList)).2 = .ok (.bool true) := by
  decide

/-- the base-class `movedir` into a proper ancestor of the source deviates on FTPFS as on MemoryFS and OSFS
    (the same witness as `MemRefines.mem_movedir_ancestor_counterexample`) -/
theorem ftp_movedir_ancestor_counterexample :
    let t : Node := .dir [("a".toList, .dir [("a".toList, .dir [("x".toList, .file [1])])])]
    let s : State := { root := t, closed := false }
    fileAt (Ftp.step (exec (pyftpdlib true 2026)) 2026 s (.movedir "a".toList "/".toList false)).1.root
      ["a".toList, "x".toList] = none ∧
    fileAt (Ref.step s (.movedir "a".toList "/".toList false)).1.root ["a".toList, "x".toList] = some [1] := by
  decide

/-- REPAIRED (/repo 433aea4; was `ftp_removetree_nul_backref_counterexample`, class only): `removetree` on a path
    that is invalid twice over (NUL, and climbing above the root) — the inherited `FS.removetree` now validates
    before it normalises, so FTPFS names the NUL as the reference does, and a closed FTPFS says FilesystemClosed -/
theorem ftp_removetree_nul_backref_repaired :
    let op : Op := .removetree "\x00/../..".toList
    (Ftp.step (exec (pyftpdlib true 2026)) 2026 State.empty op).2 = .err .InvalidCharsInPath ∧
    (Ref.step State.empty op).2 = .err .InvalidCharsInPath ∧
    (Ftp.step (exec (pyftpdlib true 2026)) 2026 { State.empty with closed := true } (.removetree "..".toList)).2 =
      .err .FilesystemClosed := by
  refine ⟨by decide, by decide, by decide⟩

end Fs.FtpRefines
