/-
  C05 — move, copy and recursive remove never destroy unrelated data.
  Frame and post-condition theorems over the reference semantics, for every tree, every
  argument shape (equal, inside, ancestor, existing directory, root, below a file) and
  every flag, whether the call returns or raises.
-/
import FsModel.Ref
import FsProofs.Lemmas.TreeLemmas

namespace Fs.C05
open Fs Fs.Ref Fs.TreeLemmas

/-- `a` is a component prefix of `q` -/
abbrev under (a q : List Name) : Prop := a <+: q

/-- the paths a call was asked to touch, as a predicate on component paths -/
def touched (op : Op) (q : List Name) : Prop :=
  match op with
  | .move s d _ => ∃ a b, validate s = .ok a ∧ validate d = .ok b ∧ (q = a ∨ q = b)
  | .copy _ d _ => ∃ b, validate d = .ok b ∧ q = b
  | .movedir s d _ => ∃ a b, validate s = .ok a ∧ validate d = .ok b ∧ (under a q ∨ under b q)
  | .copydir _ d _ => ∃ b, validate d = .ok b ∧ under b q
  | .removetree p => ∃ a, validate p = .ok a ∧ under a q
  | .remove p | .removedir p | .writebytes p _ | .appendbytes p _ | .create p _ | .touch p
  | .openbin p _ => ∃ a, validate p = .ok a ∧ q = a
  | .makedir p _ => ∃ a, validate p = .ok a ∧ q = a
  | .makedirs p _ => ∃ a, validate p = .ok a ∧ under q a
  | _ => False

theorem touched_of_touch1 {op : Op} {p : Str} {cs q : List Name} (hp : op.paths = [p])
    (hv : validate p = .ok cs) (ht : touch1 op cs q) : touched op q := by
  cases op <;> simp only [touch1] at ht <;> simp only [Op.paths, List.cons.injEq, and_true] at hp <;>
    subst hp <;> exact ⟨cs, hv, ht⟩

theorem touched_of_touch2 {op : Op} {p p' : Str} {a b q : List Name} (hp : op.paths = [p, p'])
    (ha : validate p = .ok a) (hb : validate p' = .ok b) (ht : touch2 op a b q) : touched op q := by
  cases op <;> simp only [touch2] at ht <;> simp only [Op.paths, List.cons.injEq, and_true] at hp <;>
    obtain ⟨rfl, rfl⟩ := hp
  · exact ⟨a, b, ha, hb, ht⟩
  · exact ⟨b, hb, ht⟩
  · exact ⟨a, b, ha, hb, ht⟩
  · exact ⟨b, hb, ht⟩

/-- FRAME: every pre-existing file the call was not asked to touch is still there with its
original bytes after the call — whether the call returned or raised. -/
theorem frame_files (s : State) (op : Op) (q : List Name) (b : Bytes)
    (hq : s.root.get q = some (.file b)) (hn : ¬ touched op q) :
    (step s op).1.root.get q = some (.file b) := by
  cases step_case s op with
  | close _ h => rw [h]; exact hq
  | fail e _ h => rw [h]; exact hq
  | one p cs _ hp hv h =>
    rw [h]
    exact eff1_frame (eff1 s cs op) q b hq (fun ht => hn (touched_of_touch1 hp hv ht))
  | two p p' a b' _ hp ha hb h =>
    rw [h]
    exact eff2_frame (eff2 s a b' op) q b hq (fun ht => hn (touched_of_touch2 hp ha hb ht))

/-- a failed call changes nothing at all -/
theorem failed_call_changes_nothing (s : State) (op : Op) (e : Err)
    (h : (step s op).2 = .err e) : (step s op).1 = s := by
  cases step_case s op with
  | close _ h' => rw [h'] at h; cases h
  | fail e' _ h' => rw [h']
  | one p cs _ _ _ h' => rw [h'] at h ⊢; exact eff1_err (eff1 s cs op) e h
  | two p p' a b _ _ _ _ h' => rw [h'] at h ⊢; exact eff2_err (eff2 s a b op) e h

/-- after a successful move the source content is at the destination and the source is gone -/
theorem move_post (st : State) (s d : Str) (ow : Bool) (a b : List Name) (v : Val)
    (ha : validate s = .ok a) (hb : validate d = .ok b) (hne : a ≠ b) (hwf : st.root.wf = true)
    (hok : (step st (.move s d ow)).2 = .ok v) :
    (step st (.move s d ow)).1.root.get b = st.root.get a ∧
    (step st (.move s d ow)).1.root.get a = none ∧
    ∃ data, st.root.get a = some (.file data) := by
  have hs := step_two_ok (op := .move s d ow) rfl ha hb hok
  rw [hs] at hok ⊢
  have h2 := eff2 st a b (.move s d ow)
  generalize step2 st a b (.move s d ow) = r at h2 hok
  cases h2 with
  | fail e => cases hok
  | noop v' h => exact absurd (h ⟨_, _, _, Or.inl rfl⟩) hne
  | move data ps ha' hab hbne hp hnd _ =>
    simp only [upd]
    have h1 : ¬ b <+: a := not_prefix_of_not_dir ha' hne hnd
    have h2 := get_set_file b a st.root (.file data) data ha' h1
    have h3 := get_set_same b st.root (.file data) ps hbne hp
    have h4 : ¬ a <+: b := not_prefix_of_not_dir h3 (Ne.symm hne) (by simp [h2])
    have hane : a ≠ [] := by intro e; subst e; exact h4 List.nil_prefix
    have hwf' := set_wf b st.root (.file data) (validate_clean d b hb) rfl hwf
    refine ⟨?_, ?_, data, ha'⟩
    · rw [ha']; exact get_del_file _ _ _ _ h3 h4
    · simpa using get_del_append a [] _ hane hwf'
  | copy _ _ _ _ _ _ _ hop => obtain ⟨_, _, _, h⟩ := hop; cases h
  | movedirMerge _ _ _ _ _ _ _ _ _ _ hop => obtain ⟨_, _, _, h⟩ := hop; cases h
  | movedirNew _ _ _ _ _ _ _ hop => obtain ⟨_, _, _, h⟩ := hop; cases h
  | copydirMerge _ _ _ _ _ _ _ hop => obtain ⟨_, _, _, h⟩ := hop; cases h
  | copydirNew _ _ _ _ _ hop => obtain ⟨_, _, _, h⟩ := hop; cases h

theorem move_same_path_noop (st : State) (s d : Str) (a : List Name) (v : Val)
    (ha : validate s = .ok a) (hb : validate d = .ok a)
    (hok : (step st (.move s d true)).2 = .ok v) : (step st (.move s d true)).1 = st := by
  have hs := step_two_ok (op := .move s d true) rfl ha hb hok
  rw [hs]
  cases hg : st.root.get a with
  | none => simp [step2, hg, Ref.fail]
  | some n => cases n <;> simp [step2, hg, Ref.fail, done]

/-- after a successful copy the destination holds the source bytes and the source is intact -/
theorem copy_post (st : State) (s d : Str) (ow : Bool) (a b : List Name) (v : Val)
    (ha : validate s = .ok a) (hb : validate d = .ok b) (hwf : st.root.wf = true)
    (hok : (step st (.copy s d ow)).2 = .ok v) :
    ∃ data, st.root.get a = some (.file data) ∧
      (step st (.copy s d ow)).1.root.get b = some (.file data) ∧
      (step st (.copy s d ow)).1.root.get a = some (.file data) := by
  have hs := step_two_ok (op := .copy s d ow) rfl ha hb hok
  rw [hs] at hok ⊢
  have hne : a ≠ b := by
    intro e; subst e
    simp only [step2] at hok
    split at hok
    · cases hok
    · simp [Ref.fail] at hok
  have h2 := eff2 st a b (.copy s d ow)
  generalize step2 st a b (.copy s d ow) = r at h2 hok
  cases h2 with
  | fail e => cases hok
  | noop v' h => exact absurd (h ⟨_, _, _, Or.inr (Or.inl rfl)⟩) hne
  | copy data ps ha' hab hbne hp hnd _ =>
    simp only [upd]
    have _ := hwf
    have h1 : ¬ b <+: a := not_prefix_of_not_dir ha' hne hnd
    exact ⟨data, ha', get_set_same b st.root (.file data) ps hbne hp,
      get_set_file b a st.root (.file data) data ha' h1⟩
  | move _ _ _ _ _ _ _ hop => obtain ⟨_, _, _, h⟩ := hop; cases h
  | movedirMerge _ _ _ _ _ _ _ _ _ _ hop => obtain ⟨_, _, _, h⟩ := hop; cases h
  | movedirNew _ _ _ _ _ _ _ hop => obtain ⟨_, _, _, h⟩ := hop; cases h
  | copydirMerge _ _ _ _ _ _ _ hop => obtain ⟨_, _, _, h⟩ := hop; cases h
  | copydirNew _ _ _ _ _ hop => obtain ⟨_, _, _, h⟩ := hop; cases h

/-- copying a file onto itself is always rejected -/
theorem copy_onto_itself_rejected (st : State) (s d : Str) (ow : Bool) (a : List Name)
    (hc : st.closed = false) (ha : validate s = .ok a) (hb : validate d = .ok a) :
    ∃ e, step st (.copy s d ow) = (st, .err e) := by
  have hs : step st (.copy s d ow) = step2 st a a (.copy s d ow) := by
    simp [step, hc, Op.paths, mapM_two, ha, hb]
  rw [hs]
  simp only [step2]
  split
  · exact ⟨_, rfl⟩
  · simp only [if_true]; exact ⟨_, rfl⟩

/-- moving or copying a directory into itself is always rejected -/
theorem movedir_into_itself_rejected (st : State) (s d : Str) (c : Bool) (a b : List Name)
    (hc : st.closed = false) (ha : validate s = .ok a) (hb : validate d = .ok b)
    (hin : a <+: b) (hne : a ≠ b) :
    step st (.movedir s d c) = (st, .err .IllegalDestination) := by
  have hs : step st (.movedir s d c) = step2 st a b (.movedir s d c) := by
    simp [step, hc, Op.paths, mapM_two, ha, hb]
  rw [hs]
  simp [step2, hne, (isPrefix_iff a b).2 hin, Ref.fail]

theorem copydir_into_itself_rejected (st : State) (s d : Str) (c : Bool) (a b : List Name)
    (hc : st.closed = false) (ha : validate s = .ok a) (hb : validate d = .ok b) (hin : a <+: b) :
    step st (.copydir s d c) = (st, .err .IllegalDestination) := by
  have hs : step st (.copydir s d c) = step2 st a b (.copydir s d c) := by
    simp [step, hc, Op.paths, mapM_two, ha, hb]
  rw [hs]
  simp [step2, (isPrefix_iff a b).2 hin, Ref.fail]

/-- after a successful movedir every file of the source subtree is, with its bytes, at the
corresponding destination path (even when the destination is an ancestor of the source) -/
theorem movedir_post (st : State) (s d : Str) (c : Bool) (a b r : List Name) (v : Val) (data : Bytes)
    (ha : validate s = .ok a) (hb : validate d = .ok b) (hne : a ≠ b) (hwf : st.root.wf = true)
    (hok : (step st (.movedir s d c)).2 = .ok v)
    (hf : st.root.get (a ++ r) = some (.file data)) :
    (step st (.movedir s d c)).1.root.get (b ++ r) = some (.file data) := by
  have hs := step_two_ok (op := .movedir s d c) rfl ha hb hok
  rw [hs] at hok ⊢
  have h2 := eff2 st a b (.movedir s d c)
  generalize step2 st a b (.movedir s d c) = r' at h2 hok
  cases h2 with
  | fail e => cases hok
  | noop v' h => exact absurd (h ⟨_, _, _, Or.inr (Or.inr (Or.inl rfl))⟩) hne
  | movedirMerge es ds0 ds m hab hpre ha' hb0 hd hm _ =>
    simp only [upd]
    have hes : entsWf es = true := by simpa [Node.wf] using get_wf _ _ _ hwf ha'
    rw [get_setAt_append _ b r m ds hd]
    exact mergeEnts_get es ds m r data hes hm (get_rel ha' hf)
  | movedirNew es ps hab hpre ha' hbn hp _ =>
    simp only [upd]
    have hbne : b ≠ [] := by intro e; subst e; simp [Node.get] at hbn
    have h1 : (st.root.set b (.dir es)).get (b ++ r) = some (.file data) := by
      rw [get_set_append b r st.root _ ps hbne hp]; exact get_rel ha' hf
    refine get_del_file _ _ _ _ h1 ?_
    intro h
    rcases List.prefix_or_prefix_of_prefix h (List.prefix_append b r) with h | h
    · rw [(isPrefix_iff a b).2 h] at hpre; cases hpre
    · obtain ⟨x, hx⟩ := get_prefix_exists h ha'
      rw [hbn] at hx; cases hx
  | move _ _ _ _ _ _ _ hop => obtain ⟨_, _, _, h⟩ := hop; cases h
  | copy _ _ _ _ _ _ _ hop => obtain ⟨_, _, _, h⟩ := hop; cases h
  | copydirMerge _ _ _ _ _ _ _ hop => obtain ⟨_, _, _, h⟩ := hop; cases h
  | copydirNew _ _ _ _ _ hop => obtain ⟨_, _, _, h⟩ := hop; cases h

/-- the file (if any) at a component path -/
def fileAt (t : Node) (q : List Name) : Option Bytes :=
  match t.get q with
  | some (.file d) => some d
  | _ => none

/- ORIGINAL STATEMENT (false as written — second conjunct, "the source file is intact"):

theorem copydir_post (st : State) (s d : Str) (c : Bool) (a b r : List Name) (v : Val) (data : Bytes)
    (ha : validate s = .ok a) (hb : validate d = .ok b) (hwf : st.root.wf = true)
    (hok : (step st (.copydir s d c)).2 = .ok v)
    (hf : st.root.get (a ++ r) = some (.file data)) :
    (step st (.copydir s d c)).1.root.get (b ++ r) = some (.file data) ∧
    (step st (.copydir s d c)).1.root.get (a ++ r) = some (.file data)

COUNTEREXAMPLE: the destination is a proper ancestor of the source and the source holds, below an
entry named like the path from the destination to itself, a file that lands on one of its own
files.  Tree `a/f = [1]`, `a/a/f = [2]`; `copydir("a", "/")` succeeds, merging the content of `a`
into the root: `a/a/f` is written to `/a/f`, so afterwards `a/f = [2] ≠ [1]`
(`copydir_post_counterexample` below).  The second conjunct therefore carries the extra hypothesis
`¬ b <+: a` (the destination is not an ancestor of the source); the first conjunct is unchanged. -/
theorem copydir_post_counterexample :
    let st : State := ⟨.dir [("a".toList, .dir [("f".toList, .file [1]),
      ("a".toList, .dir [("f".toList, .file [2])])])], false⟩
    let a := ["a".toList]
    let r := ["f".toList]
    validate "a".toList = .ok a ∧ validate "/".toList = .ok [] ∧ st.root.wf = true ∧
    (step st (.copydir "a".toList "/".toList false)).2 = .ok .unit ∧
    fileAt st.root (a ++ r) = some [1] ∧
    fileAt (step st (.copydir "a".toList "/".toList false)).1.root (a ++ r) = some [2] := by
  decide

theorem copydir_post (st : State) (s d : Str) (c : Bool) (a b r : List Name) (v : Val) (data : Bytes)
    (ha : validate s = .ok a) (hb : validate d = .ok b) (hwf : st.root.wf = true)
    (hok : (step st (.copydir s d c)).2 = .ok v)
    (hf : st.root.get (a ++ r) = some (.file data)) :
    (step st (.copydir s d c)).1.root.get (b ++ r) = some (.file data) ∧
    (¬ b <+: a → (step st (.copydir s d c)).1.root.get (a ++ r) = some (.file data)) := by
  have hs := step_two_ok (op := .copydir s d c) rfl ha hb hok
  rw [hs] at hok ⊢
  have hnp : ¬ a <+: b := by
    intro h
    simp [step2, (isPrefix_iff a b).2 h, Ref.fail] at hok
  have h2 := eff2 st a b (.copydir s d c)
  generalize step2 st a b (.copydir s d c) = r' at h2 hok
  cases h2 with
  | fail e => cases hok
  | noop v' h =>
    have := h ⟨_, _, _, Or.inr (Or.inr (Or.inr rfl))⟩
    subst this
    exact absurd (List.prefix_refl a) hnp
  | copydirMerge es ds m hpre ha' hd hm _ =>
    simp only [upd]
    have hes : entsWf es = true := by simpa [Node.wf] using get_wf _ _ _ hwf ha'
    refine ⟨?_, fun hba => ?_⟩
    · rw [get_setAt_append _ b r m ds hd]
      exact mergeEnts_get es ds m r data hes hm (get_rel ha' hf)
    · exact get_setAt_file _ _ _ _ _ hf (not_prefix_append hnp hba)
  | copydirNew es hpre ha' hbn hbl _ =>
    simp only [upd]
    have hbne : b ≠ [] := by intro e; subst e; simp [Node.get] at hbn
    have hba : ¬ b <+: a := by
      intro h
      obtain ⟨x, hx⟩ := get_prefix_exists h ha'
      rw [hbn] at hx; cases hx
    obtain ⟨es0, h0⟩ := root_dir_of_not_blocked hbne hbl
    obtain ⟨es', hd⟩ := mkdirs_get [] b st.root es0 h0 hbl (by simp [hbn])
    simp only [List.nil_append] at hd
    obtain ⟨ps, hp⟩ := get_parent_dir hbne hd
    refine ⟨?_, fun _ => ?_⟩
    · rw [get_set_append b r _ _ ps hbne hp]; exact get_rel ha' hf
    · exact get_set_file _ _ _ _ _ (mkdirs_file _ _ _ _ _ hf) (not_prefix_append hnp hba)
  | move _ _ _ _ _ _ _ hop => obtain ⟨_, _, _, h⟩ := hop; cases h
  | copy _ _ _ _ _ _ _ hop => obtain ⟨_, _, _, h⟩ := hop; cases h
  | movedirMerge _ _ _ _ _ _ _ _ _ _ hop => obtain ⟨_, _, _, h⟩ := hop; cases h
  | movedirNew _ _ _ _ _ _ _ hop => obtain ⟨_, _, _, h⟩ := hop; cases h

/-- removetree removes exactly the subtree -/
theorem removetree_post (st : State) (p : Str) (a r : List Name) (v : Val)
    (ha : validate p = .ok a) (hne : a ≠ []) (hwf : st.root.wf = true)
    (hok : (step st (.removetree p)).2 = .ok v) :
    (step st (.removetree p)).1.root.get (a ++ r) = none := by
  have hs := step_one_ok (op := .removetree p) rfl ha hok
  rw [hs] at hok ⊢
  simp only [step1, hne, if_false] at hok ⊢
  cases hg : st.root.get a with
  | none => simp [hg, Ref.fail] at hok
  | some n =>
    cases n with
    | file _ => simp [hg, Ref.fail] at hok
    | dir es => simp only [upd]; exact get_del_append a r _ hne hwf

example : ¬ touched (.removetree "a".toList) ["b".toList] := by
  intro ⟨a, ha, hu⟩
  have : a = ["a".toList] := by
    have h : validate "a".toList = .ok ["a".toList] := by decide
    rw [h] at ha; cases ha; rfl
  subst this
  exact absurd hu (by decide)

end Fs.C05
