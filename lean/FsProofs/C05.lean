/-
  C05 — move, copy and recursive remove never destroy unrelated data.
  Frame and post-condition theorems over the reference semantics, for every tree, every
  argument shape (equal, inside, ancestor, existing directory, root, below a file) and
  every flag, whether the call returns or raises.
-/
import FsModel.Ref
import FsProofs.Lemmas.TreeLemmas

namespace Fs.C05
open Fs Fs.Ref

/-- `a` is a component prefix of `q` -/
abbrev under (a q : List Name) : Prop := a <+: q

/-- the paths a call was asked to touch, as a predicate on component paths -/
def touched (op : Op) (q : List Name) : Prop :=
  match op with
  | .move s d _ => ∃ a b, validate s = .ok a ∧ validate d = .ok b ∧ (q = a ∨ q = b)
  | .copy _ d _ => ∃ b, validate d = .ok b ∧ q = b
  | .movedir s d _ => ∃ a b, validate s = .ok a ∧ validate d = .ok b ∧ (under a q ∨ under b q)
  | .copydir _ d _ => ∃ b, validate d = .ok b ∧ under b q
  | .removetree p => ∃ a, validate p = .ok a ∧ under a q
  | .remove p | .removedir p | .writebytes p _ | .appendbytes p _ | .create p _ | .touch p
  | .openbin p _ => ∃ a, validate p = .ok a ∧ q = a
  | .makedir p _ => ∃ a, validate p = .ok a ∧ q = a
  | .makedirs p _ => ∃ a, validate p = .ok a ∧ under q a
  | _ => False

/-- FRAME: every pre-existing file the call was not asked to touch is still there with its
original bytes after the call — whether the call returned or raised. -/
theorem frame_files (s : State) (op : Op) (q : List Name) (b : Bytes)
    (hq : s.root.get q = some (.file b)) (hn : ¬ touched op q) :
    (step s op).1.root.get q = some (.file b) := by
  sorry

/-- a failed call changes nothing at all -/
theorem failed_call_changes_nothing (s : State) (op : Op) (e : Err)
    (h : (step s op).2 = .err e) : (step s op).1 = s := by
  sorry

/-- after a successful move the source content is at the destination and the source is gone -/
theorem move_post (st : State) (s d : Str) (ow : Bool) (a b : List Name) (v : Val)
    (ha : validate s = .ok a) (hb : validate d = .ok b) (hne : a ≠ b) (hwf : st.root.wf = true)
    (hok : (step st (.move s d ow)).2 = .ok v) :
    (step st (.move s d ow)).1.root.get b = st.root.get a ∧
    (step st (.move s d ow)).1.root.get a = none ∧
    ∃ data, st.root.get a = some (.file data) := by
  sorry

theorem move_same_path_noop (st : State) (s d : Str) (a : List Name) (v : Val)
    (ha : validate s = .ok a) (hb : validate d = .ok a)
    (hok : (step st (.move s d true)).2 = .ok v) : (step st (.move s d true)).1 = st := by
  sorry

/-- after a successful copy the destination holds the source bytes and the source is intact -/
theorem copy_post (st : State) (s d : Str) (ow : Bool) (a b : List Name) (v : Val)
    (ha : validate s = .ok a) (hb : validate d = .ok b) (hwf : st.root.wf = true)
    (hok : (step st (.copy s d ow)).2 = .ok v) :
    ∃ data, st.root.get a = some (.file data) ∧
      (step st (.copy s d ow)).1.root.get b = some (.file data) ∧
      (step st (.copy s d ow)).1.root.get a = some (.file data) := by
  sorry

/-- copying a file onto itself is always rejected -/
theorem copy_onto_itself_rejected (st : State) (s d : Str) (ow : Bool) (a : List Name)
    (hc : st.closed = false) (ha : validate s = .ok a) (hb : validate d = .ok a) :
    ∃ e, step st (.copy s d ow) = (st, .err e) := by
  sorry

/-- moving or copying a directory into itself is always rejected -/
theorem movedir_into_itself_rejected (st : State) (s d : Str) (c : Bool) (a b : List Name)
    (hc : st.closed = false) (ha : validate s = .ok a) (hb : validate d = .ok b)
    (hin : a <+: b) (hne : a ≠ b) :
    step st (.movedir s d c) = (st, .err .IllegalDestination) := by
  sorry

theorem copydir_into_itself_rejected (st : State) (s d : Str) (c : Bool) (a b : List Name)
    (hc : st.closed = false) (ha : validate s = .ok a) (hb : validate d = .ok b) (hin : a <+: b) :
    step st (.copydir s d c) = (st, .err .IllegalDestination) := by
  sorry

/-- after a successful movedir every file of the source subtree is, with its bytes, at the
corresponding destination path (even when the destination is an ancestor of the source) -/
theorem movedir_post (st : State) (s d : Str) (c : Bool) (a b r : List Name) (v : Val) (data : Bytes)
    (ha : validate s = .ok a) (hb : validate d = .ok b) (hne : a ≠ b) (hwf : st.root.wf = true)
    (hok : (step st (.movedir s d c)).2 = .ok v)
    (hf : st.root.get (a ++ r) = some (.file data)) :
    (step st (.movedir s d c)).1.root.get (b ++ r) = some (.file data) := by
  sorry

theorem copydir_post (st : State) (s d : Str) (c : Bool) (a b r : List Name) (v : Val) (data : Bytes)
    (ha : validate s = .ok a) (hb : validate d = .ok b) (hwf : st.root.wf = true)
    (hok : (step st (.copydir s d c)).2 = .ok v)
    (hf : st.root.get (a ++ r) = some (.file data)) :
    (step st (.copydir s d c)).1.root.get (b ++ r) = some (.file data) ∧
    (step st (.copydir s d c)).1.root.get (a ++ r) = some (.file data) := by
  sorry

/-- removetree removes exactly the subtree -/
theorem removetree_post (st : State) (p : Str) (a r : List Name) (v : Val)
    (ha : validate p = .ok a) (hne : a ≠ []) (hwf : st.root.wf = true)
    (hok : (step st (.removetree p)).2 = .ok v) :
    (step st (.removetree p)).1.root.get (a ++ r) = none := by
  sorry

example : ¬ touched (.removetree "a".toList) ["b".toList] := by
  intro ⟨a, ha, hu⟩
  have : a = ["a".toList] := by
    have h : validate "a".toList = .ok ["a".toList] := by decide
    rw [h] at ha; cases ha; rfl
  subst this
  exact absurd hu (by decide)

end Fs.C05
