/-
  C12Gen — the headline C12 theorems restated over the definitions GENERATED from fs/path.py
  (`Fs.PathGen.*`), by rewriting with the equalities of `FsProofs/PathGenEq.lean`.
  Whatever `FsProofs/C12.lean` proves about the hand transcription therefore holds of the code
  the translator read on this run (modulo the translator and the PyStr primitives, see
  design.d/PATHGEN.md).  Generated functions that contain a partial Python operation return `Res`;
  the statements below say `.ok …` for them.
-/
import FsProofs.C12
import FsProofs.PathGenEq

namespace Fs.C12Gen
open Fs Fs.Path Fs.PathSpec Fs.PathLemmas Fs.C12 Fs.PathGenEq

/-! ## normpath -/

/-- generated normpath = component-wise resolution (fast path included) -/
theorem normpath_eq_spec (p : Str) : PathGen.normpath p = specNorm p := by
  rw [normpath_eq]; exact C12.normpath_eq_spec p

/-- IllegalBackReference exactly when the resolution climbs above the start -/
theorem normpath_err_iff_climbs (p : Str) :
    PathGen.normpath p = .err .IllegalBackReference ↔ climbs (splitSlash p) := by
  rw [normpath_eq]; exact C12.normpath_err_iff_climbs p

theorem normpath_err_only_backref (p : Str) (e : Err) (h : PathGen.normpath p = .err e) :
    e = .IllegalBackReference := by
  rw [normpath_eq] at h; exact C12.normpath_err_only_backref p e h

/-- the result has no `.`, `..` or empty component -/
theorem normpath_clean (p q : Str) (h : PathGen.normpath p = .ok q) :
    ∃ cs, Clean cs ∧ q = mk (startsWithSlash p) cs := by
  rw [normpath_eq] at h; exact C12.normpath_clean p q h

theorem normpath_idem (p q : Str) (h : PathGen.normpath p = .ok q) : PathGen.normpath q = .ok q := by
  rw [normpath_eq] at h ⊢; exact C12.normpath_idem p q h

/-- fixed points of the generated normpath are exactly the joins of clean components -/
theorem norm_iff_clean (q : Str) : PathGen.normpath q = .ok q ↔ ∃ a cs, Clean cs ∧ q = mk a cs := by
  rw [normpath_eq]; exact C12.norm_iff_clean q

/-! ## inverses on normalised paths -/

theorem iteratepath_mk (a : Bool) (cs : List Str) (h : Clean cs) :
    PathGen.iteratepath (mk a cs) = .ok cs := by
  rw [iteratepath_eq]; exact C12.iteratepath_mk a cs h

theorem split_mk_snoc (a : Bool) (cs : List Str) (c : Str) (h : Clean (cs ++ [c])) :
    PathGen.split (mk a (cs ++ [c])) =
      .ok (if cs = [] then (if a then ['/'] else []) else mk a cs, c) := by
  rw [split_eq, C12.split_mk_snoc a cs c h]

/-- split then combine is the identity on normalised paths (dirname/basename never raise) -/
theorem combine_dirname_basename (q : Str) (h : PathGen.normpath q = .ok q) :
    ∃ d b, PathGen.dirname q = .ok d ∧ PathGen.basename q = .ok b ∧ PathGen.combine d b = q := by
  rw [normpath_eq] at h
  exact ⟨dirname q, basename q, dirname_eq q, basename_eq q, by
    rw [combine_eq]; exact C12.combine_dirname_basename q h⟩

theorem join_dirname_basename (q : Str) (h : PathGen.normpath q = .ok q) :
    ∃ d b, PathGen.dirname q = .ok d ∧ PathGen.basename q = .ok b ∧ PathGen.join [d, b] = .ok q := by
  rw [normpath_eq] at h
  exact ⟨dirname q, basename q, dirname_eq q, basename_eq q, by
    rw [join_eq]; exact C12.join_dirname_basename q h⟩

theorem recursepath_eq_prefixes (a : Bool) (cs : List Str) (h : Clean cs) :
    PathGen.recursepath (mk a cs) false =
      .ok ((List.range (cs.length + 1)).map fun i => mk true (cs.take i)) := by
  rw [recursepath_eq]; exact C12.recursepath_eq_prefixes a cs h

theorem parts_eq (a : Bool) (cs : List Str) (h : Clean cs) :
    PathGen.parts (mk a cs) = .ok ((if a then ['/'] else ['.', '/']) :: cs) := by
  rw [PathGenEq.parts_eq]; exact C12.parts_eq a cs h

/-! ## whole-component comparisons -/

theorem isbase_iff_component_prefix (a b : Bool) (as bs : List Str) (ha : Clean as) (hb : Clean bs) :
    PathGen.isbase (mk a as) (mk b bs) = true ↔ as <+: bs := by
  rw [isbase_eq]; exact C12.isbase_iff_component_prefix a b as bs ha hb

/-- `/ab` is not below `/a`: the comparison is on whole components, not on raw string prefixes -/
theorem not_isbase_sibling_prefix : PathGen.isbase ['/', 'a'] ['/', 'a', 'b'] = false := by
  rw [isbase_eq]; exact C12.not_isbase_sibling_prefix

theorem isparent_iff_component_prefix (a : Bool) (as bs : List Str) (ha : Clean as) (hb : Clean bs) :
    PathGen.isparent (mk a as) (mk a bs) = .ok true ↔ as <+: bs := by
  rw [isparent_eq, ← C12.isparent_iff_component_prefix a as bs ha hb]
  constructor
  · intro h; injection h
  · intro h; rw [h]

theorem not_isparent_sibling_prefix : PathGen.isparent ['/', 'a'] ['/', 'a', 'b'] = .ok false := by
  rw [isparent_eq, C12.not_isparent_sibling_prefix]

theorem frombase_append (a : Bool) (as bs : List Str) (ha : Clean as) (hb : Clean bs)
    (hp : as <+: bs) : ∃ r, PathGen.frombase (mk a as) (mk a bs) = .ok r ∧ mk a as ++ r = mk a bs := by
  rw [frombase_eq]; exact C12.frombase_append a as bs ha hb hp

theorem frombase_rejects (a : Bool) (as bs : List Str) (ha : Clean as) (hb : Clean bs)
    (hp : ¬ as <+: bs) : PathGen.frombase (mk a as) (mk a bs) = .err .ValueError := by
  rw [frombase_eq]; exact C12.frombase_rejects a as bs ha hb hp

/-- `frombase` never cuts inside a name (fs/path.py since 696468c), for the generated definition -/
theorem frombase_whole_components (a b : Bool) (as bs : List Str) (ha : Clean as) (hb : Clean bs)
    (r : Str) (h : PathGen.frombase (mk a as) (mk b bs) = .ok r) :
    as <+: bs ∧ comps r = bs.drop as.length := by
  rw [frombase_eq] at h; exact C12.frombase_whole_components a b as bs ha hb r h

theorem relativefrom_resolves (a b : Bool) (as bs : List Str) (ha : Clean as) (hb : Clean bs) :
    ∃ r, PathGen.relativefrom (mk a as) (mk b bs) = .ok r ∧ resolve (as ++ splitSlash r) = some bs := by
  rw [relativefrom_eq]; exact C12.relativefrom_resolves a b as bs ha hb

theorem issamedir_iff_init_eq (a : Bool) (as bs : List Str) (ha : Clean as) (hb : Clean bs)
    (hna : as ≠ []) (hnb : bs ≠ []) :
    PathGen.issamedir (mk a as) (mk a bs) = .ok (decide (as.dropLast = bs.dropLast)) := by
  rw [issamedir_eq]; exact C12.issamedir_iff_init_eq a as bs ha hb hna hnb

/-! ## non-vacuity: the generated definitions compute -/

example : PathGen.normpath "/foo//bar/../a.b/".toList = .ok "/foo/a.b".toList := by decide
example : PathGen.normpath "foo/../../bar".toList = .err .IllegalBackReference := by decide
example : PathGen.recursepath "a/b".toList = .ok ["/".toList, "/a".toList, "/a/b".toList] := by decide
example : PathGen.isparent "foo/bar/".toList "foo/bar".toList = .ok true := by decide
example : PathGen.frombase "/".toList "foo".toList = .ok "foo".toList := by decide

end Fs.C12Gen
