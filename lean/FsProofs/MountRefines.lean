/-
  C01 — "every built-in writable filesystem and COMPOSITION … MountFS": **MountFS as coded**
  (FsModel.MountFs = transcription of fs/mountfs.py + the fs/base.py defaults it inherits, a FUNCTOR over
  the step functions of its members) **refines the reference semantics on the GLUED tree** whenever
  its members refine the reference on theirs — at every nesting (a MountFS mounted in a MountFS is the
  functor applied twice) and with MemoryFS-as-coded (`MemRefines.mem_refines_ref`) as the base case.

  Vocabulary (FsProofs/Lemmas/MountPrims.lean, MountTree.lean, BaseProgs.lean):
  * `Kind σ`             how a member type is read: `abs : σ → Ref.State` (the tree its user sees), `inv`
                         (the states this reading is valid for; implies open, well-formed, a directory root),
                         `fix` (fixtures inside the member); `plainKind` = a plain filesystem state;
                         `mountKind K mps fx` = a MountFS over members of kind `K` (so the functor iterates);
  * `PrimRefines K F`    what a MountFS needs from a member `F : FS σ`: every MEMBER-LEVEL call (`isMemberOp`:
                         the 16 operations MountFS forwards) on a NUL-free path that does not remove a fixture
                         refines `Ref.step` on `K.abs` (`Refines1`: invariant and fixtures kept, abstract state =
                         the reference's, outcome `OutRel` = equal on success, an admissible class on failure —
                         the reference's own class for `getinfo` and for `readbytes` of the root, which is what
                         `FS.exists` and a mount point rely on);
  * `Inv K mps ms`       an open MountFS whose table holds exactly the clean, pairwise non-nested mount points
                         `mps`, over an open well-formed default tree with a PLACEHOLDER DIRECTORY at every
                         mount point (what `mount()` = `makedirs(key, recreate=True)` leaves), members within `K.inv`;
  * `glue K mps ms`      **the tree the user sees**: the default tree with each member's tree grafted at its
                         mount path (`glueN`, `setAt`);
  * `fixOf K mps ms`     the fixtures: the (non-root) mount points and the members' fixtures below them;
  * `touchesFixture`     the decidable side condition of the harness's steering (`props/_stateful.steer`):
                         `remove / removedir / removetree / move / movedir` whose (first) path is a fixture or an
                         ancestor of one;
  * (`noNulOp`, no path argument contains NUL, is only what a MountFS promises its MEMBERS — `PrimRefines` —: since
                         /repo 48e26ed `_delegate` refuses such a path itself, and (b) holds for EVERY path string);
  * `ProgOk`, `PrimSem`  the same refinement statement for a program over refining primitives.
-/
import FsModel.MountFs
import FsModel.Mem
import FsProofs.Lemmas.MountPrims
import FsProofs.Lemmas.BaseProgs
import FsProofs.MemRefines
import FsProofs.C01
import FsProofs.C17

namespace Fs.MountRefines
open Fs Fs.Path Fs.Ref Fs.Route Fs.MountFs Fs.MountLemmas Fs.BaseProgs Fs.MountTree Fs.WrapLemmas

/-! ## (a) routing -/

/-- **mount_delegate_spec** — `_delegate` on a state of the invariant, for a path that validates to the
components `cs`: the FIRST mount point (table order) that is a component prefix of `cs` receives the join
of the remaining components, else `default_fs` receives the RAW path.  (`RouteSpec.routeSpec` is C17's
documented rule; string prefix on the stored `forcedir` keys = component prefix is
`C17.mount_route_component_prefix`, used here, not re-proved; with pairwise non-nested mount points "first"
and "longest" coincide: `mount_delegate_unique`.) -/
theorem mount_delegate_spec {σ : Type} {K : Kind σ} {mps : List (List Name)} {ms : MState σ}
    (hinv : Inv K mps ms) {p : Str} {cs : List Name} (hv : validate p = .ok cs) :
    delegate ms p =
      match RouteSpec.routeSpec (idxFrom 1 mps) cs with
      | some (i, rest) => .ok (i, joinSlash rest)
      | none => .ok (0, p) :=
  delegate_spec hinv hv

/-- … and a path the reference's `validate` refuses — it contains NUL, or it climbs above the root — is refused
by `_delegate` itself, with the SAME class (invalid characters first: /repo 48e26ed), before any member is asked -/
theorem mount_delegate_invalid {σ : Type} {ms : MState σ} {p : Str} {e : Err}
    (hv : validate p = .err e) : delegate ms p = .err e :=
  delegate_err hv

theorem disjoint_mem {mps : List (List Name)} (hd : Disjoint mps) {a b : List Name} (ha : a ∈ mps) (hb : b ∈ mps)
    (hne : a ≠ b) : Diverge a b := by
  induction mps with
  | nil => cases ha
  | cons x r ih =>
    simp only [Disjoint] at hd
    obtain ⟨h1, h2⟩ := List.pairwise_cons.1 hd
    rcases List.mem_cons.1 ha with rfl | ha' <;> rcases List.mem_cons.1 hb with rfl | hb'
    · exact absurd rfl hne
    · exact h1 b hb'
    · exact (h1 a ha').symm
    · exact ih h2 ha' hb'

/-- with pairwise non-nested mount points at most one of them is a prefix of a path: first = longest = only -/
theorem mount_delegate_unique {mps : List (List Name)} (hd : Disjoint mps) {cs a b : List Name}
    (ha : a ∈ mps) (hb : b ∈ mps) (hpa : a <+: cs) (hpb : b <+: cs) : a = b := by
  by_cases hab : a = b
  · exact hab
  · exfalso
    have := disjoint_mem hd ha hb hab
    rcases List.prefix_or_prefix_of_prefix hpa hpb with h | h
    · exact this.1 h
    · exact this.2 h

/-! ## the MountFS primitives form a refining primitive semantics -/

/-- the methods MountFS defines, on the states of the invariant, read through `glue` -/
theorem mount_primSem {σ : Type} (D : FS State) (F : FS σ) (K : Kind σ) (mps : List (List Name))
    (hD : PrimRefines plainKind D) (hF : PrimRefines K F) :
    PrimSem (MountFs.sem D F) (glue K mps) (Inv K mps) (fixOf K mps) where
  std := fun s hs => ⟨hs.opn, hs.opn, (glue_wf_isDir hs).1, (glue_wf_isDir hs).2⟩
  prim := fun s pr hs hu hfix => prim_spec D F hD hF hs pr hu hfix
  validate := fun s p hs => validate_spec D F hD hF hs p

/-! ## (b) MountFS preserves refinement -/

/-- the side condition of the harness's steering (`props/_stateful.steer`): the operation removes or
moves away a path that is a fixture or an ancestor of one -/
def touchesFixture (fix : List (List Name)) : Op → Prop
  | .remove p | .removedir p | .removetree p | .move p _ _ | .movedir p _ _ =>
    ∃ cs, validate p = .ok cs ∧ ∃ f ∈ fix, cs <+: f
  | _ => False

instance (fix : List (List Name)) (op : Op) : Decidable (touchesFixture fix op) := by
  have key : ∀ p : Str, Decidable (∃ cs, validate p = .ok cs ∧ ∃ f ∈ fix, cs <+: f) := by
    intro p
    cases h : validate p with
    | err e => exact isFalse (by rintro ⟨cs, h', _⟩; cases h')
    | ok cs =>
      by_cases hx : ∃ f ∈ fix, cs <+: f
      · exact isTrue ⟨cs, rfl, hx⟩
      · exact isFalse (by rintro ⟨cs', h', hx'⟩; cases h'; exact hx hx')
  cases op <;> simp only [touchesFixture] <;> first | exact key _ | exact isFalse (fun h => h)

/-- what the PROVED operations really need: the path removed (`remove`, `removedir`, the source of `move`)
is not exactly a fixture.  (An ANCESTOR of a fixture is a non-empty directory: these three calls fail on it
with and without the mounts.)  `touchesFixture` implies it. -/
def removesFixture (fix : List (List Name)) : Op → Prop
  | .remove p | .removedir p | .move p _ _ => ∃ cs, validate p = .ok cs ∧ cs ∈ fix
  | _ => False

theorem touches_of_removes {fix : List (List Name)} {op : Op} (h : removesFixture fix op) : touchesFixture fix op := by
  cases op <;> simp only [removesFixture] at h <;> simp only [touchesFixture]
  all_goals
    obtain ⟨cs, h1, h2⟩ := h
    exact ⟨cs, h1, cs, h2, List.prefix_refl _⟩

theorem removes_of_hits {fix : List (List Name)} {op : Op} (h : hitsFixture fix op) : removesFixture fix op := by
  cases op <;> simp only [hitsFixture] at h <;> simp only [removesFixture]
  all_goals exact h

/-- the operations whose MountFS program is PROVED to refine the reference here: everything but the
walker-based bulk defaults and `makedirs` (see `mount_bulk_partial`) and `close` (see (f)) -/
def proved : Op → Bool
  | .makedirs _ _ | .removetree _ | .movedir _ _ _ | .copydir _ _ _ | .close => false
  | _ => true

/-- **mount_preserves_refinement.**  Let the default filesystem `D` and the member filesystems `F` refine
the reference on their own trees (`PrimRefines`: any implementations — MemoryFS as coded, a wrapper, another
MountFS).  Then on every state of the invariant and for every proved operation that does not touch a
fixture, on EVERY path argument (any spelling: `./`, `x/../`, doubled or trailing slashes, NUL, climbing
paths), one call on the MountFS refines one call of the reference on the GLUED tree:
* the invariant (hence the placeholders, the table, every member's invariant) and the fixtures are kept;
* the glued tree afterwards is the reference's resulting tree — in particular unchanged on failure;
* same verdict; on success the same value; on failure an admissible class (`Ref.adm` of the glued tree).
Cross-member `copy` / `move` (source in one member, destination in another or in the default tree) are
instances: see (d). -/
theorem mount_preserves_refinement {σ : Type} (D : FS State) (F : FS σ) (K : Kind σ) (mps : List (List Name))
    (hD : PrimRefines plainKind D) (hF : PrimRefines K F) (ms : MState σ) (hinv : Inv K mps ms) (op : Op)
    (hpr : proved op = true) (hfix : ¬ removesFixture (fixOf K mps ms) op) :
    Inv K mps (MountFs.step D F ms op).1 ∧ fixOf K mps (MountFs.step D F ms op).1 = fixOf K mps ms ∧
    glue K mps (MountFs.step D F ms op).1 = (Ref.step (glue K mps ms) op).1 ∧
    OutRel (glue K mps ms) op (MountFs.step D F ms op).2 (Ref.step (glue K mps ms) op).2 := by
  have H := mount_primSem D F K mps hD hF
  have one : ∀ pr : Prim, usedPrim pr = true → primOp pr = op → prog op = Route.one pr →
      Inv K mps (MountFs.step D F ms op).1 ∧ fixOf K mps (MountFs.step D F ms op).1 = fixOf K mps ms ∧
      glue K mps (MountFs.step D F ms op).1 = (Ref.step (glue K mps ms) op).1 ∧
      OutRel (glue K mps ms) op (MountFs.step D F ms op).2 (Ref.step (glue K mps ms) op).2 := by
    intro pr hu hop hprog
    have h := one_ok H pr ms hinv hu (by rw [hop]; exact fun hh => hfix (removes_of_hits hh))
    rw [hop] at h
    have hstep : MountFs.step D F ms op = (((Route.one pr).run (MountFs.sem D F) ms).1,
        ((Route.one pr).run (MountFs.sem D F) ms).2.1) := by
      cases op <;> simp only [proved, Bool.false_eq_true] at hpr <;> simp only [MountFs.step, hprog]
    rw [hstep]
    exact h
  cases op <;> simp only [proved, Bool.false_eq_true] at hpr
  case exists_ p => exact exists_ok H ms hinv p
  case isdir p => exact one (.isdir p) rfl rfl rfl
  case isfile p => exact one (.isfile p) rfl rfl rfl
  case listdir p => exact one (.listdir p) rfl rfl rfl
  case getsize p => exact one (.getsize p) rfl rfl rfl
  case gettype p => exact one (.gettype p) rfl rfl rfl
  case isempty p => exact one (.scanFirst p) rfl rfl rfl
  case getinfo p => exact one (.getinfo p) rfl rfl rfl
  case readbytes p => exact one (.readbytes p) rfl rfl rfl
  case makedir p r => exact one (.makedir p r) rfl rfl rfl
  case writebytes p d => exact one (.writebytes p d) rfl rfl rfl
  case appendbytes p d => exact one (.openAppend p d) rfl rfl rfl
  case create p w => exact create_ok H ms hinv p w
  case touch p => exact touch_ok H ms hinv p
  case settimes p => exact one (.setinfo p) rfl rfl rfl
  case openbin p m => exact one (.openbin p m) rfl rfl rfl
  case remove p => exact one (.remove p) rfl rfl rfl
  case removedir p => exact one (.removedir p) rfl rfl rfl
  case move a b o =>
    refine move_ok H ms hinv a b o ?_
    intro cs hv hmem
    exact hfix ⟨cs, hv, hmem⟩
  case copy a b o => exact copy_ok H ms hinv a b o

/-- the same in the shape of `MemRefines.mem_refines_ref` / `WrapRefines.wrap_preserves_refinement`: same
verdict; on success the reference's value and the reference's tree as the glued post-tree; on failure an
unchanged glued tree and a class in `Ref.adm` of the glued tree -/
theorem mount_refines_ref {σ : Type} (D : FS State) (F : FS σ) (K : Kind σ) (mps : List (List Name))
    (hD : PrimRefines plainKind D) (hF : PrimRefines K F) (ms : MState σ) (hinv : Inv K mps ms) (op : Op)
    (hpr : proved op = true) (hfix : ¬ touchesFixture (fixOf K mps ms) op) :
    ((MountFs.step D F ms op).2.isOk = (Ref.step (glue K mps ms) op).2.isOk) ∧
    ((Ref.step (glue K mps ms) op).2.isOk = true →
      (MountFs.step D F ms op).2 = (Ref.step (glue K mps ms) op).2 ∧
      glue K mps (MountFs.step D F ms op).1 = (Ref.step (glue K mps ms) op).1) ∧
    (∀ e, (MountFs.step D F ms op).2 = .err e →
      glue K mps (MountFs.step D F ms op).1 = glue K mps ms ∧ e ∈ adm (glue K mps ms) op) := by
  obtain ⟨_, _, h3, h4⟩ := mount_preserves_refinement D F K mps hD hF ms hinv op hpr
    (fun h => hfix (touches_of_removes h))
  cases hr : (Ref.step (glue K mps ms) op).2 with
  | ok v =>
    have := h4.1 (by rw [hr]; rfl)
    rw [hr] at this
    refine ⟨by rw [this], fun _ => ⟨this, h3⟩, ?_⟩
    intro e he; simp [this] at he
  | err e' =>
    obtain ⟨e, g1, g2, _⟩ := h4.2 e' hr
    refine ⟨by rw [g1]; rfl, fun h => by simp [Res.isOk] at h, ?_⟩
    intro e2 he2
    rw [g1] at he2
    cases he2
    exact ⟨by rw [h3, C06.failed_step_unchanged _ _ _ hr], g2⟩

/-! ## the base case and the iteration: MemoryFS members, MountFS members -/

theorem member_not_loose (s : State) (op : Op) (hm : isMemberOp op = true) (hc : s.closed = false)
    (hd : s.root.isDir = true) : (Ref.step s op).2 ≠ .err .OperationFailed := by
  intro h
  obtain ⟨p, hp⟩ := memberOp_paths hm
  cases hv : validate p with
  | err e =>
    have he : e ≠ .OperationFailed := by
      rcases QueryLemmas.validate_err_cases _ _ hv with h' | h' <;> subst h' <;> simp
    by_cases ho : ∃ q m, op = .openbin q m
    · obtain ⟨q, m, rfl⟩ := ho
      simp only [Op.paths, List.cons.injEq, and_true] at hp
      subst hp
      rw [QueryLemmas.step_openbin s q m hc, hv] at h
      split at h
      · simp [fail] at h
      · simp only [fail, Res.err.injEq] at h; exact he h
    · rw [QueryLemmas.step_one s op p hc hp (fun q m e => ho ⟨q, m, e⟩), hv] at h
      simp only [fail, Res.err.injEq] at h; exact he h
  | ok cs =>
    rw [step_of_validate hc hp hv] at h
    have key : ∀ o, isMemberOp o = true → (step1 s cs o).2 ≠ .err .OperationFailed := by
      intro o hmo ho
      have := QueryLemmas.step1_truthful s cs o _ hd ho
      cases o <;> simp only [isMemberOp, Bool.false_eq_true] at hmo
      all_goals simp [adm1, admDirArg, admFileArg, admFileTarget] at this
      all_goals try (split at this <;> simp_all)
    cases op <;> simp only [] at h <;> try exact key _ hm h
    split at h
    · simp [fail] at h
    · exact key _ hm h

/-- **MemoryFS as coded is a member a MountFS can be built over** (from `MemRefines.mem_refines_ref`; the
exact class of `getinfo` and of `readbytes("/")` from `MemLemmas.mem_getinfo` / `mem_readbytes`) -/
theorem mem_prim_refines : PrimRefines plainKind Mem.step := by
  intro s op hs hm hnn hfx0
  obtain ⟨hc, hwf, hd⟩ := hs
  have hk : ¬ MemRefines.knownDeviation op := by cases op <;> simp_all [isMemberOp, MemRefines.knownDeviation]
  obtain ⟨r1, r2, r3⟩ := MemRefines.mem_refines_ref s op hc hd hwf hk (member_not_loose s op hm hc hd)
  have hop : op ≠ .close := memberOp_ne_close hm
  have hstate : (Mem.step s op).1 = (Ref.step s op).1 := by
    cases hr : (Ref.step s op).2 with
    | ok v => rw [r2 (by rw [hr]; rfl)]
    | err e' =>
      have : (Mem.step s op).2.isOk = false := by rw [r1, hr]; rfl
      cases hm2 : (Mem.step s op).2 with
      | ok v => rw [hm2] at this; cases this
      | err e => rw [(r3 e hm2).2, C06.failed_step_unchanged s op e' hr]
  refine ⟨?_, rfl, hstate, ?_⟩
  · simp only [plainKind]
    rw [hstate]
    refine ⟨?_, C01.ref_wf_preserved s op hd hwf, C01.ref_root_is_dir s op hd⟩
    rcases QueryLemmas.step_shape s op hop with ⟨o, h⟩ | ⟨t, v, h⟩ <;> rw [h] <;> simp [upd, hc]
  · simp only [plainKind, id]
    refine ⟨fun hok => by rw [r2 hok], ?_⟩
    intro e' he'
    have : (Mem.step s op).2.isOk = false := by rw [r1, he']; rfl
    cases hm2 : (Mem.step s op).2 with
    | ok v => rw [hm2] at this; cases this
    | err e =>
      refine ⟨e, rfl, (r3 e hm2).1, ?_⟩
      intro hex
      cases op <;> simp only [exactOp] at hex
      · -- getinfo
        rename_i p
        cases hv : validate p with
        | err ev =>
          have h1 := (r3 e hm2).1
          rw [QueryLemmas.adm_one s _ p hc rfl (by simp), hv] at h1
          rw [QueryLemmas.step_one s _ p hc rfl (by simp), hv] at he'
          simp only [fail, Res.err.injEq] at he'
          simp only [List.mem_singleton] at h1
          rw [h1, he']
        | ok cs =>
          have := MemLemmas.mem_getinfo s p cs hc hv
          rw [this] at hm2
          rw [step_of_validate hc rfl hv] at he'
          rw [he'] at hm2
          cases hm2; rfl
      · -- readbytes of the root
        rename_i p
        have := MemLemmas.mem_readbytes s p [] hc hex hd hwf
        rw [this] at hm2
        rw [step_of_validate hc rfl hex] at he'
        rw [he'] at hm2
        cases hm2; rfl

/-- **(e) the functor iterates**: a MountFS over members of kind `K` is itself a member of kind
`mountKind K mps fx` — its member-level calls refine the reference on ITS glued tree, with ITS fixtures — so
it can be mounted in another MountFS (`mount_nested`) -/
theorem mount_prim_refines {σ : Type} (D : FS State) (F : FS σ) (K : Kind σ) (mps : List (List Name))
    (fx : List (List Name)) (hD : PrimRefines plainKind D) (hF : PrimRefines K F) :
    PrimRefines (mountKind K mps fx) (MountFs.step D F) := by
  intro ms op hs hm hnn hfix
  obtain ⟨hinv, hfx⟩ := hs
  have hpr : proved op = true := by cases op <;> simp_all [isMemberOp, proved]
  have hrf : ¬ removesFixture (fixOf K mps ms) op := by
    intro h
    apply hfix
    simp only [mountKind]
    rw [← hfx]
    cases op <;> simp only [isMemberOp, Bool.false_eq_true] at hm <;> simp only [removesFixture] at h <;>
      simp only [hitsFixture]
    all_goals exact h
  obtain ⟨h1, h2, h3, h4⟩ := mount_preserves_refinement D F K mps hD hF ms hinv op hpr hrf
  exact ⟨⟨h1, by rw [h2, hfx]⟩, rfl, h3, h4⟩


/-! ## (e) nesting -/

/-- **mount_nested** — a MountFS (default `D'`) whose mounted members are MountFS objects (default `D`,
members `F` of kind `K`): the functor applied twice.  Corollary of (b) with `mount_prim_refines`: the outer
MountFS refines the reference on the twice-glued tree; its fixtures are the outer mount points, the inner
mount points below them, and the innermost members' fixtures below those. -/
theorem mount_nested {σ : Type} (D D' : FS State) (F : FS σ) (K : Kind σ) (imps fx omps : List (List Name))
    (hD : PrimRefines plainKind D) (hD' : PrimRefines plainKind D') (hF : PrimRefines K F)
    (ms : MState (MState σ)) (hinv : Inv (mountKind K imps fx) omps ms) (op : Op)
    (hpr : proved op = true) (hfix : ¬ touchesFixture (fixOf (mountKind K imps fx) omps ms) op) :
    let W := MountFs.step D' (MountFs.step D F)
    let G := glue (mountKind K imps fx) omps ms
    ((W ms op).2.isOk = (Ref.step G op).2.isOk) ∧
    ((Ref.step G op).2.isOk = true →
      (W ms op).2 = (Ref.step G op).2 ∧ glue (mountKind K imps fx) omps (W ms op).1 = (Ref.step G op).1) ∧
    (∀ e, (W ms op).2 = .err e → glue (mountKind K imps fx) omps (W ms op).1 = G ∧ e ∈ adm G op) :=
  mount_refines_ref D' (MountFs.step D F) (mountKind K imps fx) omps hD' (mount_prim_refines D F K imps fx hD hF)
    ms hinv op hpr hfix

/-- … and with MemoryFS as coded everywhere (default trees and innermost members): the configuration the
harness calls `mount-in-mount` -/
theorem mount_nested_over_mem (imps fx omps : List (List Name)) (ms : MState (MState State))
    (hinv : Inv (mountKind plainKind imps fx) omps ms) (op : Op)
    (hpr : proved op = true) (hfix : ¬ touchesFixture (fixOf (mountKind plainKind imps fx) omps ms) op) :
    let W := MountFs.step Mem.step (MountFs.step Mem.step Mem.step)
    let G := glue (mountKind plainKind imps fx) omps ms
    ((W ms op).2.isOk = (Ref.step G op).2.isOk) ∧
    ((Ref.step G op).2.isOk = true →
      (W ms op).2 = (Ref.step G op).2 ∧ glue (mountKind plainKind imps fx) omps (W ms op).1 = (Ref.step G op).1) ∧
    (∀ e, (W ms op).2 = .err e → glue (mountKind plainKind imps fx) omps (W ms op).1 = G ∧ e ∈ adm G op) :=
  mount_nested Mem.step Mem.step Mem.step plainKind imps fx omps mem_prim_refines mem_prim_refines mem_prim_refines
    ms hinv op hpr hfix

/-- **MountFS over MemoryFS members as coded refines the reference** (the harness's `mount`, `mount-root`) -/
theorem mount_over_mem_refines_ref (mps : List (List Name)) (ms : MState State) (hinv : Inv plainKind mps ms) (op : Op)
    (hpr : proved op = true) (hfix : ¬ touchesFixture (fixOf plainKind mps ms) op) :
    let W := MountFs.step Mem.step Mem.step
    let G := glue plainKind mps ms
    ((W ms op).2.isOk = (Ref.step G op).2.isOk) ∧
    ((Ref.step G op).2.isOk = true → (W ms op).2 = (Ref.step G op).2 ∧ glue plainKind mps (W ms op).1 = (Ref.step G op).1) ∧
    (∀ e, (W ms op).2 = .err e → glue plainKind mps (W ms op).1 = G ∧ e ∈ adm G op) :=
  mount_refines_ref Mem.step Mem.step plainKind mps mem_prim_refines mem_prim_refines ms hinv op hpr hfix

/-! ## (d) cross-member `copy` / `move` -/

/-- **cross-member `copy` and `move`** — source below one mount point, destination below ANOTHER one (or in
the default tree): the base-class `copy` / `move` (validate ×2, `exists(dst)`, `getinfo(src)`,
`open(src,"rb")` on one member, `upload(dst)` on the other, `remove(src)` on the first) equal the reference's
`copy` / `move` on the glued tree: verdict, value, the glued post-tree (the file appears below the second
mount point and, for `move`, is gone below the first), admissible class and unchanged glue on failure.
Instance of (b): nothing in its proof depends on which members own the two paths. -/
theorem mount_cross_member_copy_move {σ : Type} (D : FS State) (F : FS σ) (K : Kind σ) (mps : List (List Name))
    (hD : PrimRefines plainKind D) (hF : PrimRefines K F) (ms : MState σ) (hinv : Inv K mps ms)
    (src dst : Str) (ow mv : Bool)
    (mp1 mp2 r1 r2 : List Name) (_h1 : mp1 ∈ mps) (_h2 : mp2 ∈ mps) (_hne : mp1 ≠ mp2)
    (_hv1 : validate src = .ok (mp1 ++ r1)) (_hv2 : validate dst = .ok (mp2 ++ r2))
    (hfix : mv = true → ∀ cs, validate src = .ok cs → cs ∉ fixOf K mps ms) :
    let op : Op := if mv then .move src dst ow else .copy src dst ow
    let G := glue K mps ms
    ((MountFs.step D F ms op).2.isOk = (Ref.step G op).2.isOk) ∧
    ((Ref.step G op).2.isOk = true →
      (MountFs.step D F ms op).2 = (Ref.step G op).2 ∧ glue K mps (MountFs.step D F ms op).1 = (Ref.step G op).1) ∧
    (∀ e, (MountFs.step D F ms op).2 = .err e → glue K mps (MountFs.step D F ms op).1 = G ∧ e ∈ adm G op) := by
  intro op G
  have hpr : proved op = true := by cases mv <;> rfl
  have hrf : ¬ removesFixture (fixOf K mps ms) op := by
    cases mv with
    | false => simp [op, removesFixture]
    | true =>
      simp only [op, if_true, removesFixture]
      rintro ⟨cs, hv, hm⟩
      exact hfix rfl cs hv hm
  obtain ⟨_, _, h3, h4⟩ := mount_preserves_refinement D F K mps hD hF ms hinv op hpr hrf
  cases hr : (Ref.step G op).2 with
  | ok v =>
    have := h4.1 (by rw [hr]; rfl)
    rw [hr] at this
    refine ⟨by rw [this], fun _ => ⟨this, h3⟩, ?_⟩
    intro e he; simp [this] at he
  | err e' =>
    obtain ⟨e, g1, g2, _⟩ := h4.2 e' hr
    refine ⟨by rw [g1]; rfl, fun h => by simp [Res.isOk] at h, ?_⟩
    intro e2 he2
    rw [g1] at he2
    cases he2
    exact ⟨by rw [h3, C06.failed_step_unchanged _ _ _ hr], g2⟩


/-! ## a concrete two-member MountFS (non-vacuity, and the witness of every counterexample below) -/

/-- a MountFS as `fsharness.make_backend("mount")` builds it — mounts `m1`, `m2/deep` of two MemoryFS —
with some content: member 1 holds `f` and `d/g`, member 2 is EMPTY; the default tree holds the placeholders,
`m2/side` and `top` -/
def demo : MState State :=
  { closed := false, autoClose := true,
    dflt := ⟨.dir [("m1".toList, .dir []), ("m2".toList, .dir [("deep".toList, .dir []), ("side".toList, .file [7])]),
                   ("top".toList, .file [1, 2])], false⟩,
    mounts := [("/m1/".toList, ⟨.dir [("f".toList, .file [3]), ("d".toList, .dir [("g".toList, .file [4])])], false⟩),
               ("/m2/deep/".toList, ⟨.dir [], false⟩)] }

def demoMps : List (List Name) := [["m1".toList], ["m2".toList, "deep".toList]]

/-- MountFS over MemoryFS members, as coded -/
abbrev mstep := MountFs.step Mem.step Mem.step

/-- the tree the user of `demo` sees -/
def demoGlue : State :=
  ⟨.dir [("m1".toList, .dir [("f".toList, .file [3]), ("d".toList, .dir [("g".toList, .file [4])])]),
         ("m2".toList, .dir [("deep".toList, .dir []), ("side".toList, .file [7])]),
         ("top".toList, .file [1, 2])], false⟩

theorem demo_diverge : Diverge ["m1".toList] ["m2".toList, "deep".toList] := by
  unfold Diverge; decide

/-- the hypotheses of (b) are satisfiable: `demo` is a state of the invariant, and its glued tree is `demoGlue` -/
theorem demo_inv : Inv plainKind demoMps demo ∧ glue plainKind demoMps demo = demoGlue ∧
    fixOf plainKind demoMps demo = demoMps := by
  refine ⟨⟨rfl, ⟨rfl, by decide, rfl⟩, by decide, by decide, ?_, ?_, ?_⟩, by rfl, by decide⟩
  · simp only [Disjoint, demoMps, List.pairwise_cons, List.mem_singleton, forall_eq, List.not_mem_nil,
      false_imp_iff, implies_true, List.Pairwise.nil, and_true]
    exact demo_diverge
  · intro e he
    simp only [demo, List.mem_cons, List.not_mem_nil, or_false] at he
    rcases he with rfl | rfl <;> exact ⟨rfl, by decide, rfl⟩
  · intro mp hmp
    simp only [demoMps, List.mem_cons, List.not_mem_nil, or_false] at hmp
    rcases hmp with rfl | rfl
    · exact ⟨[], by rfl⟩
    · exact ⟨[], by rfl⟩

/-- the hypotheses of `mount_over_mem_refines_ref` are satisfiable for a cross-member `move`, and its
conclusion is what one expects: the file arrives below the second mount point and leaves the first -/
example :
    let op : Op := .move "m1/f".toList "./m2//deep/../deep/n".toList false
    proved op = true ∧ ¬ touchesFixture (fixOf plainKind demoMps demo) op ∧
    (mstep demo op).2 = .ok .unit ∧
    (mstep (mstep demo op).1 (.readbytes "m2/deep/n".toList)).2 = .ok (.bytes [3]) ∧
    (mstep (mstep demo op).1 (.exists_ "m1/f".toList)).2 = .ok (.bool false) ∧
    (Ref.step demoGlue op).2 = .ok .unit := by
  refine ⟨rfl, ?_, by decide, by decide, by decide, by decide⟩
  rw [demo_inv.2.2]; decide

/-! ## (c) operations that DO touch a fixture: what the code does (documented limits of a composition,
steered around by the harness; not findings — the property text exempts mount points) -/

/-- `removedir` of a mount point: `MountFS.removedir` hands the member `removedir("")`, which a filesystem
refuses for its own root — RemoveRootError, nothing changes — although the glued tree shows an EMPTY
directory there, which the reference would remove -/
theorem mount_removedir_fixture_counterexample :
    (mstep demo (.removedir "m2/deep".toList)).2 = .err .RemoveRootError ∧
    (Ref.step demoGlue (.removedir "m2/deep".toList)).2 = .ok .unit ∧
    touchesFixture demoMps (.removedir "m2/deep".toList) := by
  refine ⟨by decide, by decide, ?_⟩
  exact ⟨["m2".toList, "deep".toList], by decide, ["m2".toList, "deep".toList], by decide, List.prefix_refl _⟩

/-- `remove` of a mount point: both fail, nothing changes; the class is the member's for ITS root
(MemoryFS: ResourceNotFound — the root has no name in its parent), not the reference's FileExpected -/
theorem mount_remove_fixture_counterexample :
    (mstep demo (.remove "m1".toList)).2 = .err .ResourceNotFound ∧
    (Ref.step demoGlue (.remove "m1".toList)).2 = .err .FileExpected ∧
    Err.ResourceNotFound ∉ adm demoGlue (.remove "m1".toList) := by
  refine ⟨by decide, by decide, by decide⟩

/-- `removetree` of an ANCESTOR of a mount point: the depth-first walk of `FS.removetree` empties the mounted
filesystem through the mount point, then `removedir` of the mount point itself fails — RemoveRootError with
the members' content already gone — where the reference removes the whole directory -/
theorem mount_removetree_fixture_counterexample :
    let ms1 := (mstep demo (.writebytes "m2/deep/x".toList [9])).1
    (mstep ms1 (.removetree "m2".toList)).2 = .err .RemoveRootError ∧
    (mstep (mstep ms1 (.removetree "m2".toList)).1 (.exists_ "m2/deep/x".toList)).2 = .ok (.bool false) ∧
    (mstep (mstep ms1 (.removetree "m2".toList)).1 (.exists_ "m2/side".toList)).2 = .ok (.bool true) ∧
    (Ref.step (Ref.step demoGlue (.writebytes "m2/deep/x".toList [9])).1 (.removetree "m2".toList)).2 = .ok .unit := by
  decide

/-- `movedir` of a mount point: `move_dir` copies the content, then `removetree(src)` fails on the mount point —
the copy stays, the source is emptied but still there; the reference moves the directory -/
theorem mount_movedir_fixture_counterexample :
    (mstep demo (.movedir "m1".toList "n".toList true)).2 = .err .RemoveRootError ∧
    (mstep (mstep demo (.movedir "m1".toList "n".toList true)).1 (.readbytes "n/d/g".toList)).2 = .ok (.bytes [4]) ∧
    (mstep (mstep demo (.movedir "m1".toList "n".toList true)).1 (.listdir "m1".toList)).2 = .ok (.names []) ∧
    (Ref.step demoGlue (.movedir "m1".toList "n".toList true)).2 = .ok .unit := by
  decide

/-- `move` FROM a mount point needs no exemption (the mount point is a directory: FileExpected on both sides) -/
example : (mstep demo (.move "m1".toList "n".toList true)).2 = .err .FileExpected ∧
    (Ref.step demoGlue (.move "m1".toList "n".toList true)).2 = .err .FileExpected := by decide

/-! ## NUL in a path (finding `C01/mountfs-nul-normalised-away`, FIXED in /repo 48e26ed) -/

/-- **an invalid path argument is refused as the reference refuses it** — NUL anywhere in it (whatever it
normalises to, whichever filesystem it would be routed to) or climbing above the root: the reference's class,
nothing changed.  Consequence of (b), which no longer needs a NUL-free hypothesis.  (`openbin` aside: its mode
is validated even before the path.) -/
theorem mount_invalid_path_refused {σ : Type} (D : FS State) (F : FS σ) (K : Kind σ) (mps : List (List Name))
    (hD : PrimRefines plainKind D) (hF : PrimRefines K F) (ms : MState σ) (hinv : Inv K mps ms) (op : Op)
    (p : Str) (hp : op.paths = [p]) (hpr : proved op = true) (hno : ∀ q m, op ≠ .openbin q m)
    (e : Err) (hv : validate p = .err e) :
    (MountFs.step D F ms op).2 = .err e ∧ glue K mps (MountFs.step D F ms op).1 = glue K mps ms := by
  have hrf : ¬ removesFixture (fixOf K mps ms) op := by
    intro h
    cases op <;> simp only [removesFixture] at h
    all_goals
      simp only [Op.paths, List.cons.injEq, and_true, reduceCtorEq, and_false] at hp
    all_goals
      subst hp
      obtain ⟨cs, h1, _⟩ := h
      rw [hv] at h1; cases h1
  obtain ⟨_, _, h3, h4⟩ := mount_preserves_refinement D F K mps hD hF ms hinv op hpr hrf
  have hGc : (glue K mps ms).closed = false := hinv.opn
  have hstep : Ref.step (glue K mps ms) op = fail (glue K mps ms) e := by
    rw [QueryLemmas.step_one _ op p hGc hp hno, hv]
  have hadm : adm (glue K mps ms) op = [e] := by
    rw [QueryLemmas.adm_one _ op p hGc hp hno, hv]
  rw [hstep] at h3 h4
  obtain ⟨e2, g1, g2, _⟩ := h4.2 e rfl
  rw [hadm] at g2
  simp only [List.mem_singleton] at g2
  subst g2
  exact ⟨g1, h3⟩

/-- REPAIRED (/repo 48e26ed; was `mount_nul_normalised_away_counterexample`): a path whose NUL disappears in
normalisation and that is routed to a MOUNTED filesystem is refused like everywhere else — `_delegate` looks at
the raw path's characters before normalising.  (Before the repair `exists("m1/z\0/../f")` was `True` and
`writebytes` created the file; `removedir` normalised even before `_delegate`.) -/
theorem mount_nul_repaired :
    (mstep demo (.exists_ "m1/z\x00/../f".toList)).2 = .err .InvalidCharsInPath ∧
    (mstep demo (.writebytes "m1/z\x00/../n".toList [5])).2 = .err .InvalidCharsInPath ∧
    (mstep demo (.remove "m1/z\x00/../f".toList)).2 = .err .InvalidCharsInPath ∧
    (mstep demo (.removedir "m1/z\x00/../d".toList)).2 = .err .InvalidCharsInPath ∧
    (mstep demo (.copy "top".toList "m1/z\x00/../n".toList true)).2 = .err .InvalidCharsInPath ∧
    (Ref.step demoGlue (.exists_ "m1/z\x00/../f".toList)).2 = .err .InvalidCharsInPath ∧
    (Ref.step demoGlue (.writebytes "m1/z\x00/../n".toList [5])).2 = .err .InvalidCharsInPath ∧
    (mstep (mstep demo (.writebytes "m1/z\x00/../n".toList [5])).1 (.exists_ "m1/n".toList)).2 = .ok (.bool false) := by
  decide

/-- a path routed to `default_fs` was refused before the repair too (it receives the RAW argument and
validates it); it still is, now by `_delegate` itself -/
theorem mount_nul_default_refused :
    (mstep demo (.exists_ "q\x00/../top".toList)).2 = .err .InvalidCharsInPath ∧
    (mstep demo (.exists_ "m1/f\x00".toList)).2 = .err .InvalidCharsInPath := by
  decide

/-- REPAIRED with the same commit (was `mount_nul_climb_counterexample`, class only): a path with NUL that also
climbs is refused for its characters (InvalidCharsInPath, the reference's class), no longer by `normpath` inside
`_delegate` (IllegalBackReference) -/
theorem mount_nul_climb_repaired :
    (mstep demo (.exists_ "z\x00/../..".toList)).2 = .err .InvalidCharsInPath ∧
    (mstep demo (.removedir "z\x00/..".toList)).2 = .err .InvalidCharsInPath ∧
    (Ref.step demoGlue (.exists_ "z\x00/../..".toList)).2 = .err .InvalidCharsInPath ∧
    (Ref.step demoGlue (.removedir "z\x00/..".toList)).2 = .err .InvalidCharsInPath := by
  decide

/-- REPAIRED (/repo 433aea4): the inherited `FS.removetree` validates its path like every other method — before,
it normalised it first, so on a MountFS `removetree("m1/z\0/..")` walked and emptied `m1` and a climbing path was
reported as IllegalBackReference where the reference says InvalidCharsInPath -/
theorem mount_removetree_nul_repaired :
    (mstep demo (.removetree "m1/z\x00/..".toList)).2 = .err .InvalidCharsInPath ∧
    (mstep (mstep demo (.removetree "m1/z\x00/..".toList)).1 (.exists_ "m1/d/g".toList)).2 = .ok (.bool true) ∧
    (mstep demo (.removetree "z\x00/../..".toList)).2 = .err .InvalidCharsInPath ∧
    (Ref.step demoGlue (.removetree "m1/z\x00/..".toList)).2 = .err .InvalidCharsInPath ∧
    (Ref.step demoGlue (.removetree "z\x00/../..".toList)).2 = .err .InvalidCharsInPath := by
  decide

/-! ## the walker-based defaults and `makedirs` -/

/-- **mount_bulk_partial.**  FULL statement (not proved): `mount_preserves_refinement` for
`makedirs`, `removetree`, `copydir`, `movedir` as well — with the known `movedir`-into-an-ancestor deviation of
the base class (`MemRefines.knownDeviation`) and the loose mid-way failure excluded, as for MemoryFS.
What IS proved: (1) these operations run the fs/base.py programs transcribed in `FsModel.MountFs`
(`baseMakedirs`, `baseRemovetree`, `baseCopydir`, `baseMovedir`) over primitives each of which refines the
reference on the glued tree (`mount_primSem`); (2) path arguments that cannot be normalised are refused with
the reference's class, nothing changed (below); (3) decided instances on the two-member mount, cross-member
included (`mount_bulk_examples`).  MISSING: the induction over the walk — that `Walker` over refining `scandir` /
`getinfo` visits exactly the glued sub-tree, and that `copy_structure` + the per-file `copy` assemble
`Ref.mergeEnts` (a statement about fs/walk.py + fs/copy.py over ONE reference-like filesystem, independent of
MountFS; for `makedirs`: `recursepath` of the RAW path, cf. the shared limit of `Mem`/`Os`).  These four are
tied to the real code by the exact correspondence (`harness/props/_mountexact.py`) and to the reference by the
C01 judge on every run. -/
theorem mount_bulk_partial {σ : Type} (D : FS State) (F : FS σ) (K : Kind σ) (mps : List (List Name))
    (hD : PrimRefines plainKind D) (hF : PrimRefines K F) :
    PrimSem (MountFs.sem D F) (glue K mps) (Inv K mps) (fixOf K mps) ∧
    (∀ (ms : MState σ) (p : Str) (r : Bool),
      MountFs.step D F ms (.makedirs p r) =
        (((baseMakedirs p r).run (MountFs.sem D F) ms).1, ((baseMakedirs p r).run (MountFs.sem D F) ms).2.1)) ∧
    (∀ (ms : MState σ) (p : Str),
      MountFs.step D F ms (.removetree p) =
        (((baseRemovetree walkFuel p).run (MountFs.sem D F) ms).1,
         ((baseRemovetree walkFuel p).run (MountFs.sem D F) ms).2.1)) ∧
    (∀ (ms : MState σ) (a b : Str) (c : Bool),
      MountFs.step D F ms (.copydir a b c) =
        (((baseCopydir walkFuel a b c).run (MountFs.sem D F) ms).1,
         ((baseCopydir walkFuel a b c).run (MountFs.sem D F) ms).2.1)) ∧
    (∀ (ms : MState σ) (a b : Str) (c : Bool),
      MountFs.step D F ms (.movedir a b c) =
        (((baseMovedir walkFuel a b c).run (MountFs.sem D F) ms).1,
         ((baseMovedir walkFuel a b c).run (MountFs.sem D F) ms).2.1)) :=
  ⟨mount_primSem D F K mps hD hF, fun _ _ _ => rfl, fun _ _ => rfl, fun _ _ _ _ => rfl, fun _ _ _ _ => rfl⟩

/-- decided instances of the full statement on the two-member mount (outcome, and the glued tree observed
through the MountFS's own queries against the reference's): `makedirs` into a member, `copydir` from one
member into the other, `movedir` from the default tree into a member, `removetree` inside a member -/
theorem mount_bulk_examples :
    -- makedirs across the mount point
    (mstep demo (.makedirs "m2/deep/a/b".toList false)).2 = (Ref.step demoGlue (.makedirs "m2/deep/a/b".toList false)).2 ∧
    (mstep (mstep demo (.makedirs "m2/deep/a/b".toList false)).1 (.listdir "m2/deep/a".toList)).2 =
      (Ref.step (Ref.step demoGlue (.makedirs "m2/deep/a/b".toList false)).1 (.listdir "m2/deep/a".toList)).2 ∧
    -- copydir member 1 -> member 2
    (mstep demo (.copydir "m1".toList "m2/deep/c".toList true)).2 = .ok .unit ∧
    (Ref.step demoGlue (.copydir "m1".toList "m2/deep/c".toList true)).2 = .ok .unit ∧
    (mstep (mstep demo (.copydir "m1".toList "m2/deep/c".toList true)).1 (.readbytes "m2/deep/c/d/g".toList)).2 =
      (Ref.step (Ref.step demoGlue (.copydir "m1".toList "m2/deep/c".toList true)).1 (.readbytes "m2/deep/c/d/g".toList)).2 ∧
    (mstep (mstep demo (.copydir "m1".toList "m2/deep/c".toList true)).1 (.readbytes "m1/d/g".toList)).2 = .ok (.bytes [4]) ∧
    -- movedir of a directory that CONTAINS a mount point's sibling, default tree -> member 1
    (mstep demo (.movedir "m1/d".toList "m2/deep/e".toList true)).2 =
      (Ref.step demoGlue (.movedir "m1/d".toList "m2/deep/e".toList true)).2 ∧
    (mstep (mstep demo (.movedir "m1/d".toList "m2/deep/e".toList true)).1 (.exists_ "m1/d".toList)).2 = .ok (.bool false) ∧
    (mstep (mstep demo (.movedir "m1/d".toList "m2/deep/e".toList true)).1 (.readbytes "m2/deep/e/g".toList)).2 = .ok (.bytes [4]) ∧
    -- removetree inside a member
    (mstep demo (.removetree "m1/d".toList)).2 = (Ref.step demoGlue (.removetree "m1/d".toList)).2 ∧
    (mstep (mstep demo (.removetree "m1/d".toList)).1 (.listdir "m1".toList)).2 =
      (Ref.step (Ref.step demoGlue (.removetree "m1/d".toList)).1 (.listdir "m1".toList)).2 := by
  decide


/-! ## (f) close (ties to C18) -/

theorem prim_closed {σ : Type} (D : FS State) (F : FS σ) (ms : MState σ) (hc : ms.closed = true) (pr : Prim)
    (hu : usedPrim pr = true) (hm : ∀ p m, pr = .openbin p m → (parseBinMode m).isSome = true) :
    MountFs.prim D F ms pr = (ms, .err .FilesystemClosed) := by
  cases pr <;> simp only [usedPrim, Bool.false_eq_true] at hu <;> simp only [MountFs.prim, checked, hc, if_true]
  rename_i p m
  have := hm p m rfl
  cases h : parseBinMode m <;> simp_all

/-- **mount_closed_is_final** — after `close()` every operation of the MountFS fails and changes NOTHING
(neither the MountFS nor any member, mounted or released, nor the default tree): `self.check()` comes first in
every method MountFS defines, and every inherited default starts with one of them.  The class is
FilesystemClosed except where the code looks at an ARGUMENT before `check()`: `openbin` validates its mode
first (ValueError).  (The inherited `removetree` used to normalise its path first — IllegalBackReference —;
since /repo 433aea4 it starts with `validatepath`, i.e. with `check()`.) -/
theorem mount_closed_is_final {σ : Type} (D : FS State) (F : FS σ) (ms : MState σ) (hc : ms.closed = true)
    (op : Op) (hop : op ≠ .close) :
    (MountFs.step D F ms op).1 = ms ∧
    ((MountFs.step D F ms op).2 = .err .FilesystemClosed ∨
     (∃ p m, op = .openbin p m ∧ parseBinMode m = none ∧ (MountFs.step D F ms op).2 = .err .ValueError)) := by
  have one : ∀ pr : Prim, usedPrim pr = true → (∀ p m, pr = .openbin p m → (parseBinMode m).isSome = true) →
      ((Route.one pr).run (MountFs.sem D F) ms).1 = ms ∧
      ((Route.one pr).run (MountFs.sem D F) ms).2.1 = .err .FilesystemClosed := by
    intro pr hu hm
    simp [Route.one, Prog.run, MountFs.sem, prim_closed D F ms hc pr hu hm]
  have gi : ∀ p, (MountFs.sem D F).prim ms (.getinfo p) = (ms, .err .FilesystemClosed, []) := by
    intro p; simp [MountFs.sem, prim_closed D F ms hc (.getinfo p) rfl (by intro _ _ h; cases h)]
  have ow : ∀ p, (MountFs.sem D F).prim ms (.openWrite p) = (ms, .err .FilesystemClosed, []) := by
    intro p; simp [MountFs.sem, prim_closed D F ms hc (.openWrite p) rfl (by intro _ _ h; cases h)]
  have sc : ∀ p, (MountFs.sem D F).prim ms (.scandir p) = (ms, .err .FilesystemClosed, []) := by
    intro p; simp [MountFs.sem, prim_closed D F ms hc (.scandir p) rfl (by intro _ _ h; cases h)]
  have va : ∀ p, (MountFs.sem D F).validate ms p = (.err .FilesystemClosed, []) := by
    intro p; simp [MountFs.sem, validatepath, hc]
  have plain : ∀ pr : Prim, usedPrim pr = true → (∀ p m, pr = .openbin p m → (parseBinMode m).isSome = true) →
      prog op = Route.one pr →
      (MountFs.step D F ms op).1 = ms ∧ (MountFs.step D F ms op).2 = .err .FilesystemClosed := by
    intro pr hu hm hp
    obtain ⟨h1, h2⟩ := one pr hu hm
    cases op <;> first | exact absurd rfl hop | (simp only [MountFs.step, hp]; exact ⟨h1, h2⟩)
  cases op
  case close => exact absurd rfl hop
  case exists_ p => simp [MountFs.step, prog, baseExists, existsThen, Prog.run, gi]
  case create p w =>
    cases w <;> simp [MountFs.step, prog, baseCreate, createThen, existsThen, Prog.run, gi, ow]
  case touch p => simp [MountFs.step, prog, baseTouch, createThen, existsThen, Prog.run, gi]
  case makedirs p r => simp [MountFs.step, prog, baseMakedirs, Prog.run, MountFs.sem, hc]
  case move a b o => simp [MountFs.step, prog, baseMove, Prog.run, va]
  case copy a b o => simp [MountFs.step, prog, baseCopy, Prog.run, va]
  case movedir a b o => simp [MountFs.step, prog, baseMovedir, Prog.run, va]
  case copydir a b o => simp [MountFs.step, prog, baseCopydir, Prog.run, va]
  case removetree p => simp [MountFs.step, prog, baseRemovetree, Prog.run, va]
  case openbin p m =>
    cases hm : parseBinMode m with
    | none =>
      refine ⟨by simp [MountFs.step, prog, Route.one, Prog.run, MountFs.sem, MountFs.prim, hm],
        Or.inr ⟨p, m, rfl, hm, by simp [MountFs.step, prog, Route.one, Prog.run, MountFs.sem, MountFs.prim, hm]⟩⟩
    | some md =>
      obtain ⟨h1, h2⟩ := plain (.openbin p m) rfl (by intro _ _ h; cases h; simp [hm]) rfl
      exact ⟨h1, Or.inl h2⟩
  all_goals
    first
      | (obtain ⟨h1, h2⟩ := plain (.isdir _) rfl (by intro _ _ h; cases h) rfl; exact ⟨h1, Or.inl h2⟩)
      | (obtain ⟨h1, h2⟩ := plain (.isfile _) rfl (by intro _ _ h; cases h) rfl; exact ⟨h1, Or.inl h2⟩)
      | (obtain ⟨h1, h2⟩ := plain (.listdir _) rfl (by intro _ _ h; cases h) rfl; exact ⟨h1, Or.inl h2⟩)
      | (obtain ⟨h1, h2⟩ := plain (.getsize _) rfl (by intro _ _ h; cases h) rfl; exact ⟨h1, Or.inl h2⟩)
      | (obtain ⟨h1, h2⟩ := plain (.gettype _) rfl (by intro _ _ h; cases h) rfl; exact ⟨h1, Or.inl h2⟩)
      | (obtain ⟨h1, h2⟩ := plain (.scanFirst _) rfl (by intro _ _ h; cases h) rfl; exact ⟨h1, Or.inl h2⟩)
      | (obtain ⟨h1, h2⟩ := plain (.getinfo _) rfl (by intro _ _ h; cases h) rfl; exact ⟨h1, Or.inl h2⟩)
      | (obtain ⟨h1, h2⟩ := plain (.readbytes _) rfl (by intro _ _ h; cases h) rfl; exact ⟨h1, Or.inl h2⟩)
      | (obtain ⟨h1, h2⟩ := plain (.makedir _ _) rfl (by intro _ _ h; cases h) rfl; exact ⟨h1, Or.inl h2⟩)
      | (obtain ⟨h1, h2⟩ := plain (.writebytes _ _) rfl (by intro _ _ h; cases h) rfl; exact ⟨h1, Or.inl h2⟩)
      | (obtain ⟨h1, h2⟩ := plain (.openAppend _ _) rfl (by intro _ _ h; cases h) rfl; exact ⟨h1, Or.inl h2⟩)
      | (obtain ⟨h1, h2⟩ := plain (.setinfo _) rfl (by intro _ _ h; cases h) rfl; exact ⟨h1, Or.inl h2⟩)
      | (obtain ⟨h1, h2⟩ := plain (.remove _) rfl (by intro _ _ h; cases h) rfl; exact ⟨h1, Or.inl h2⟩)
      | (obtain ⟨h1, h2⟩ := plain (.removedir _) rfl (by intro _ _ h; cases h) rfl; exact ⟨h1, Or.inl h2⟩)

theorem closeMembers_ok {σ : Type} (F : FS σ) (l : List (Str × σ)) (h : ∀ e ∈ l, (F e.2 .close).2.isOk = true) :
    closeMembers F l = (l.map fun e => (e.1, (F e.2 .close).1), .ok .unit) := by
  induction l with
  | nil => rfl
  | cons e r ih =>
    obtain ⟨k, s⟩ := e
    have h1 := h (k, s) (by simp)
    have ih' := ih (fun e he => h e (by simp [he]))
    simp only [closeMembers]
    cases hf : F s .close with
    | mk s1 o =>
      rw [hf] at h1
      cases o with
      | err e => simp [Res.isOk] at h1
      | ok v => simp [ih', hf]

/-- **mount_close_closes_members** — `MountFS.close()` with `auto_close` (the default): the MountFS is
closed, EVERY mounted member has received `close()` — in table order — and is released from the table
(`del self.mounts[:]`), then `default_fs` is closed; without `auto_close` only the flag and `default_fs`.
(Members whose `close` succeeds: every filesystem of the library — `C18`.) -/
theorem mount_close_closes_members {σ : Type} (D : FS State) (F : FS σ) (ms : MState σ)
    (h : ∀ e ∈ ms.mounts, (F e.2 .close).2.isOk = true) :
    (MountFs.step D F ms .close).1 =
      (if ms.autoClose then
        { ms with closed := true, mounts := [], dflt := (D ms.dflt .close).1,
                  released := ms.released ++ ms.mounts.map fun e => (e.1, (F e.2 .close).1) }
       else { ms with closed := true, dflt := (D ms.dflt .close).1 }) := by
  simp only [MountFs.step, MountFs.close]
  cases ha : ms.autoClose with
  | true => simp [closeMembers_ok F ms.mounts h]
  | false => simp

/-- over MemoryFS members as coded: after `close()` the MountFS, its default tree and all its (released)
members are closed, and each of them answers every further call with FilesystemClosed
(`MemRefines.mem_closed_is_final`, `mount_closed_is_final`) -/
theorem mount_close_over_mem (ms : MState State) (ha : ms.autoClose = true) :
    let r := MountFs.step Mem.step Mem.step ms .close
    r.2 = .ok .unit ∧ r.1.closed = true ∧ r.1.dflt.closed = true ∧ r.1.mounts = [] ∧
    (∀ e ∈ r.1.released, e ∈ ms.released ∨ e.2.closed = true) ∧
    r.1.released.length = ms.released.length + ms.mounts.length := by
  have hm : ∀ e ∈ ms.mounts, (Mem.step e.2 .close).2.isOk = true := fun _ _ => rfl
  have h1 := mount_close_closes_members Mem.step Mem.step ms hm
  simp only [ha, if_true] at h1
  refine ⟨?_, by rw [h1], by rw [h1]; rfl, by rw [h1], ?_, by rw [h1]; simp⟩
  · simp [MountFs.step, MountFs.close, ha, closeMembers_ok Mem.step ms.mounts hm, Mem.step]
  · intro e he
    rw [h1] at he
    simp only [List.mem_append, List.mem_map] at he
    rcases he with he | ⟨x, _, rfl⟩
    · exact Or.inl he
    · exact Or.inr rfl

/-- close is idempotent on the flag, and a closed MountFS stays closed -/
theorem mount_close_idempotent {σ : Type} (D : FS State) (F : FS σ) (ms : MState σ) :
    (MountFs.step D F ms .close).1.closed = true ∨ ∃ e, (MountFs.step D F ms .close).2 = .err e := by
  simp only [MountFs.step, MountFs.close]
  cases ms.autoClose with
  | false => left; rfl
  | true =>
    simp only [if_true]
    cases h : closeMembers F ms.mounts with
    | mk l o =>
      cases o with
      | err e => right; exact ⟨e, rfl⟩
      | ok v => left; rfl


end Fs.MountRefines
