/-
  C18 — close() is final, idempotent and finalises exactly once.

  `guardTable` is GENERATED from the sources on every run (harness/extract/generate.py): for every
  class and every public name visible on it, whether a `check()` dominates the first access to
  instance state.  `all_data_methods_guarded` is re-proved whenever the code changes; a public
  method added later must be guarded (or be put on the justified allow-list `Guard.helpers`).
-/
import FsModel.Guard
import FsProofs.Lemmas.GuardLemmas

namespace Fs.C18
open Fs Fs.Ref Fs.Guard Fs.Generated Fs.GuardLemmas

/-! ### table theorems (re-proved on every run) -/

/-- a name must be guarded unless it is on the allow-list (`Guard.helpers`); an unclassified name
counts as data -/
def mustGuard (m : String) : Bool := !(kindOf m == some .helper)

/-- acceptable results of the dominance analysis -/
def guardOk : GuardV → Bool
  | .guarded => true       -- FilesystemClosed before any access to instance state
  | _ => false

/-- Every public method of every concrete class that reads or changes stored data or metadata
raises `FilesystemClosed` before it touches instance state. -/
theorem all_data_methods_guarded :
    ∀ t ∈ guardTable, t.1 ∈ concreteClasses → ∀ r ∈ t.2, mustGuard r.1 = true → guardOk r.2.2 = true := by
  decide +kernel

/-- every public name found by the extractor is classified (mutator / opener / query / helper) -/
theorem all_public_classified : ∀ m ∈ publicNames, (kindOf m).isSome = true := by decide +kernel

/-- `dataOrMeta` is exactly "classified and not on the allow-list" -/
theorem dataOrMeta_iff_mustGuard : ∀ m ∈ publicNames, dataOrMeta m = mustGuard m := by decide +kernel

/-- the table is not vacuous: every class of the list is there with the whole `FS` API -/
theorem guard_table_covers :
    notUnderstood = [] ∧
    ∀ cls ∈ concreteClasses, ∀ m ∈ mutators ++ openers ++ ["getinfo", "listdir", "scandir", "readbytes", "exists"],
      (publicOf cls).contains m = true := by decide +kernel

/-- helpers that are *not* guarded stay inert after close on their own account: the archive
finalisers are no-ops once closed -/
theorem finalisers_noop_when_closed :
    guardOf "WriteZipFS" "write_zip" = .closedNoop ∧ guardOf "WriteTarFS" "write_tar" = .closedNoop := by
  decide +kernel

/-! ### the reference semantics -/

/-- after `close`, nothing changes and every operation reports FilesystemClosed -/
theorem closed_is_final (s : State) (op : Op) (h : s.closed = true) (hop : op ≠ .close) :
    step s op = (s, .err .FilesystemClosed) := ref_closed_final s op h hop

/-- `close` may be repeated: the second one changes nothing and succeeds -/
theorem close_idempotent (s : State) :
    step (step s .close).1 .close = ((step s .close).1, .ok .unit) ∧ (step s .close).1.closed = true := by
  simp [step]

/-- a whole history after `close` (`with`-block exit is a call of `close`) leaves the state
alone and answers `FilesystemClosed` to everything but further closes -/
theorem closed_run_is_final (s : State) (h : s.closed = true) (ops : List Op) :
    (run s ops).1 = s ∧ ∀ o ∈ (run s ops).2, o = .err .FilesystemClosed ∨ o = .ok .unit := by
  induction ops with
  | nil => exact ⟨rfl, by intro o ho; cases ho⟩
  | cons op ops ih =>
    by_cases hop : op = .close
    · subst hop
      have e : step s .close = (s, .ok .unit) := by
        cases s with | mk root closed => simp only at h; subst h; rfl
      simp only [run, e]
      exact ⟨ih.1, by
        intro o ho
        cases ho with
        | head => exact Or.inr rfl
        | tail _ h' => exact ih.2 o h'⟩
    · simp only [run, closed_is_final s op h hop]
      exact ⟨ih.1, by
        intro o ho
        cases ho with
        | head => exact Or.inl rfl
        | tail _ h' => exact ih.2 o h'⟩

/-! ### wrappers: own flag + guard table -/

/-- a guarded method of a closed wrapper raises FilesystemClosed and reaches nothing -/
theorem wrapper_closed_is_final (cls : String) (st : RO.State) (op : Op) (h : st.closed = true)
    (hop : op ≠ .close) (hg : guardOf cls (opMeth op) = .guarded) :
    Wrap.step cls st op = (st, .err .FilesystemClosed) := by
  cases op <;> first | exact absurd rfl hop | simp [Wrap.step, h, hg]

/-- the delegating wrappers of this tree guard every operation `Ref.Op` has -/
theorem wrappers_guard_ref_ops :
    ∀ cls ∈ ["WrapFS", "SubFS", "ClosingSubFS", "WrapReadOnly", "WrapCachedDir", "WriteZipFS", "WriteTarFS"],
      ∀ m ∈ refMethods, m ≠ "close" → guardOf cls m = .guarded := by decide +kernel

/-- hence: once closed, a wrapper answers FilesystemClosed to every operation and the wrapped
filesystem is neither read nor changed through it -/
theorem wrappers_closed_final (cls : String)
    (hcls : cls ∈ ["WrapFS", "SubFS", "ClosingSubFS", "WrapReadOnly", "WrapCachedDir", "WriteZipFS", "WriteTarFS"])
    (st : RO.State) (op : Op) (h : st.closed = true) (hop : op ≠ .close) :
    Wrap.step cls st op = (st, .err .FilesystemClosed) := by
  apply wrapper_closed_is_final cls st op h hop
  apply wrappers_guard_ref_ops cls hcls
  · cases op <;> simp [opMeth, refMethods]
  · cases op <;> first | exact absurd rfl hop | simp [opMeth]

/-- why the guard matters: the wrapper's `close` does not close what it wraps, so a method that is
*not* guarded still acts on the wrapped filesystem after close (this is what a closed `SubFS` did
with `move`/`copy` before the `check()` calls were added) -/
theorem unguarded_method_leaks (cls : String) (hg : guardOf cls "move" ≠ .guarded) (hc : Wrap.closesInner cls = false) :
    ∃ st op, st.closed = true ∧ (Wrap.step cls st op).2 = .ok .unit ∧ (Wrap.step cls st op).1.inner ≠ st.inner := by
  refine ⟨(Wrap.step cls { inner := { root := .dir [(['a'], .file [1])], closed := false }, closed := false } .close).1,
    .move ['a'] ['b'] false, ?_, ?_, ?_⟩
  · rfl
  · have : (guardOf cls "move" == .guarded) = false := by simpa using hg
    simp only [Wrap.step, hc, opMeth, this]
    decide
  · have : (guardOf cls "move" == .guarded) = false := by simpa using hg
    simp only [Wrap.step, hc, opMeth, this]
    intro h
    have h2 := congrArg (fun s => flat s.root) h
    revert h2
    decide

theorem wrapper_close_idempotent (cls : String) (st : RO.State) :
    (Wrap.step cls (Wrap.step cls st .close).1 .close).1 = (Wrap.step cls st .close).1 := by
  simp only [Wrap.step]
  split <;> simp [step]

/-! ### finalisation: archives, TempFS, composites, views -/

open Finalise

/-- invariant of the archive finalisation: an open archive filesystem has written nothing yet,
a closed one at most one archive -/
def ArchInv (s : Arch) : Prop := (s.closed = true → s.writes ≤ 1) ∧ (s.closed = false → s.writes = 0)

theorem arch_close_inv (s : Arch) (f : Bool) (h : ArchInv s) : ArchInv (s.close f).1 := by
  cases s with | mk c t w a =>
  unfold ArchInv at *
  cases c <;> cases t <;> cases f <;> simp_all [Arch.close]

/-- at most one archive is ever written, whatever the sequence of `close()` calls and failures -/
theorem archive_writes_le_one (fs : List Bool) : (Arch.run Arch.init fs).1.writes ≤ 1 := by
  suffices h : ∀ (fs : List Bool) (s : Arch), ArchInv s → ArchInv (Arch.run s fs).1 by
    have hinit : ArchInv Arch.init := And.intro (fun hc => absurd hc (by decide)) (fun _ => rfl)
    have := h fs Arch.init hinit
    cases hc : (Arch.run Arch.init fs).1.closed with
    | true => exact this.1 hc
    | false => rw [this.2 hc]; exact Nat.zero_le 1
  intro fs
  induction fs with
  | nil => intro s h; exact h
  | cons f fs ih => intro s h; exact ih _ (arch_close_inv s f h)

/-- `n ≥ 1` closes the first of which succeeds: exactly one archive write, and every close
returns normally -/
theorem archive_written_once (fs : List Bool) :
    (Arch.run Arch.init (false :: fs)).1.writes = 1 ∧
    (Arch.run Arch.init (false :: fs)).1.attempts = 1 ∧
    ∀ o ∈ (Arch.run Arch.init (false :: fs)).2, o = .ok := by
  have h : ∀ (s : Arch) (fs : List Bool), s.closed = true →
      (Arch.run s fs).1 = s ∧ ∀ o ∈ (Arch.run s fs).2, o = CloseOut.ok := by
    intro s fs hc
    induction fs with
    | nil => exact ⟨rfl, by intro o ho; cases ho⟩
    | cons f fs ih =>
      have e : s.close f = (s, .ok) := by simp [Arch.close, hc]
      simp only [Arch.run, e]
      exact ⟨ih.1, by
        intro o ho
        cases ho with
        | head => rfl
        | tail _ h' => exact ih.2 o h'⟩
  have e : Arch.init.close false = ({ closed := true, tempClosed := true, writes := 1, attempts := 1 }, .ok) := by decide
  simp only [Arch.run, e]
  have := h { closed := true, tempClosed := true, writes := 1, attempts := 1 } fs rfl
  rw [this.1]
  exact ⟨rfl, rfl, by
    intro o ho
    cases ho with
    | head => rfl
    | tail _ h' => exact this.2 o h'⟩

/-- What the code does when the archive write raises during the first `close()`: the temporary
filesystem is closed by `finally` (a TempFS is deleted), `_closed` stays false — `isclosed()`
keeps answering False — every later `close()` raises FilesystemClosed (from the closed temporary
filesystem), and no archive is ever written. -/
theorem close_after_failed_close (fs : List Bool) :
    (Arch.run Arch.init (true :: fs)).1.closed = false ∧
    (Arch.run Arch.init (true :: fs)).1.tempClosed = true ∧
    (Arch.run Arch.init (true :: fs)).1.writes = 0 ∧
    (Arch.run Arch.init (true :: fs)).2 = .writeError :: fs.map (fun _ => .fsClosed) := by
  have h : ∀ (s : Arch) (fs : List Bool), s.closed = false → s.tempClosed = true →
      (Arch.run s fs).1.closed = false ∧ (Arch.run s fs).1.tempClosed = true ∧
      (Arch.run s fs).1.writes = s.writes ∧ (Arch.run s fs).2 = fs.map (fun _ => CloseOut.fsClosed) := by
    intro s fs
    induction fs generalizing s with
    | nil => intro hc ht; exact ⟨hc, ht, rfl, rfl⟩
    | cons f fs ih =>
      intro hc ht
      have e : s.close f = ({ s with attempts := s.attempts + 1 }, .fsClosed) := by simp [Arch.close, hc, ht]
      simp only [Arch.run, e, List.map_cons]
      have := ih { s with attempts := s.attempts + 1 } hc ht
      exact ⟨this.1, this.2.1, this.2.2.1, by rw [this.2.2.2]⟩
  have e : Arch.init.close true = ({ closed := false, tempClosed := true, writes := 0, attempts := 1 }, .writeError) := by
    decide
  simp only [Arch.run, e]
  have := h { closed := false, tempClosed := true, writes := 0, attempts := 1 } fs rfl rfl
  exact ⟨this.1, this.2.1, this.2.2.1, by rw [this.2.2.2]⟩

theorem tempfs_removed_on_close (s : Temp) (h : s.dirExists = true) (hc : s.cleaned = false) :
    (s.close.closed = true) ∧ (s.close.dirExists = false ↔ s.autoClean = true) := by
  cases s with | mk closed cleaned dirExists autoClean =>
  simp only at h hc
  subst h hc
  cases autoClean <;> simp [Temp.close, Temp.clean]

theorem tempfs_close_idempotent (s : Temp) : s.close.close = s.close := by
  cases s with | mk closed cleaned dirExists autoClean =>
  cases autoClean <;> cases cleaned <;> simp [Temp.close, Temp.clean]

theorem members_closed_iff_auto_close (s : Comp) (h : ∀ m ∈ s.members, m = false) (hne : s.members ≠ []) :
    s.close.closed = true ∧ ((∀ m ∈ s.close.members, m = true) ↔ s.autoClose = true) := by
  cases s with | mk closed autoClose members =>
  simp only at h hne
  cases autoClose with
  | true => simp [Comp.close]
  | false =>
    simp only [Comp.close, Bool.false_eq_true, if_false, iff_false, true_and]
    intro hall
    cases members with
    | nil => exact hne rfl
    | cons m ms =>
      have h1 := h m (List.mem_cons_self ..)
      have h2 := hall m (List.mem_cons_self ..)
      rw [h1] at h2
      exact absurd h2 (by decide)

theorem closing_subfs_closes_parent (s : Sub) :
    s.close.closed = true ∧ (s.close.parentClosed = (s.parentClosed || s.closing)) := by
  simp [Sub.close]

/-! ### examples -/

example : (Arch.run Arch.init [false, false, false]).1.writes = 1 := by decide
example : (Arch.run Arch.init [true, false, false]).2 = [.writeError, .fsClosed, .fsClosed] := by decide
example : (run State.empty [.makedir "a".toList false, .close, .exists_ "a".toList, .close, .makedir "b".toList false]).2
    = [.ok .unit, .ok .unit, .err .FilesystemClosed, .ok .unit, .err .FilesystemClosed] := by decide

end Fs.C18
