/-
  ToolsGenEq — `copy_file_data` regenerated from `$VERIF_REPO/fs/tools.py` on every run
  (`FsModel/Generated/ToolsGen.lean`, written by `harness/extract/puregen.py`) against the hand model
  `File.copyFileData` (FsModel/File.lean) that C02's `copy_file_data_exact` is stated over.
  The source file is the abstract `File.Reader` (remaining data + short-read oracle), the destination the bytes
  written so far; the generated function returns both.  `for chunk in iter(lambda: read(n) or None, None)` is a
  `pyWhile` whose fuel hint (`len(remaining data) + 1`) is shown to suffice.
-/
import FsModel.Generated.ToolsGen
import FsProofs.Lemmas.ToolsGenLemmas

namespace Fs.ToolsGenEq
open Fs Fs.PyStr Fs.File Fs.CopyLemmas Fs.ToolsGenLemmas

theorem coverage : ToolsGen.translated = ["copy_file_data"] := by decide +kernel

theorem nothing_refused : ToolsGen.refused = [] := by decide +kernel

/-- the generated `copy_file_data` terminates within its fuel hint, never raises, and appends exactly the
reader's remaining data to what the writer holds — for every chunk size (None / 0 = 1 MiB) and every
short-read oracle -/
theorem copy_file_data_eq (r : Reader) (out : Bytes) (chunk : Option Int) :
    ∃ r', ToolsGen.copy_file_data r out chunk = .ok (r', out ++ r.data) := by
  simp only [ToolsGen.copy_file_data, pyOrOptInt_eq]
  generalize hW : pyWhile _ _ _ = w
  have key : ∃ r', w = .done (r', out ++ r.data) := by
    refine pyWhile_cstep' (effChunk chunk) (effChunk_ne_zero chunk) _ ?_ _ r out (by omega) w hW
    intro s
    simp only [cstep]
    cases h : ((s.1.read (effChunk chunk)).1).isEmpty <;> simp [h]
  obtain ⟨r', rfl⟩ := key
  exact ⟨r', rfl⟩

/-- against the hand model: what ends up in the destination is `File.copyFileData` -/
theorem copy_file_data_eq_hand (chunk : Option Int) (data : Bytes) (shortReads : List Nat) :
    ∃ r', ToolsGen.copy_file_data ⟨data, shortReads⟩ [] chunk = .ok (r', File.copyFileData chunk data shortReads) := by
  obtain ⟨r', h⟩ := copy_file_data_eq ⟨data, shortReads⟩ [] chunk
  refine ⟨r', ?_⟩
  rw [h, copyFileData, copyLoop_exact (effChunk chunk) (effChunk_ne_zero chunk) _ _ _ (by simp)]

end Fs.ToolsGenEq
