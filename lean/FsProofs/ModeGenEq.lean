/-
  ModeGenEq — the `Mode` predicates regenerated from `$VERIF_REPO/fs/mode.py` on every run
  (`FsModel/Generated/ModeGen.lean`, written by `harness/extract/modegen.py`) are equal to the
  hand-written `Fs.File.Mode.*` that the C16 / C02 theorems are stated over, and
  `Fs.Ref.parseBinMode` — the mode parser of the reference semantics, of `Mem`, `Os` and `Guard` —
  is `validate_bin` followed by the generated flag properties (`parseBinMode_eq_gen`).
  Extra proof module of C16 (re-proved against the freshly generated file on every run).
-/
import FsModel.Generated.ModeGen
import FsModel.File
import FsModel.Ref
import FsProofs.Lemmas.PathGenLemmas

namespace Fs.ModeGenEq
open Fs Fs.PyStr Fs.PyStrLemmas Fs.PathGenLemmas Fs.File

/-- the translator found and translated exactly the methods the hand model transcribes -/
theorem coverage : ModeGen.translated =
    ["__contains__", "appending", "binary", "create", "exclusive", "reading", "text", "to_platform",
     "to_platform_bin", "truncate", "updating", "validate", "validate_bin", "writing"] := by decide +kernel

theorem nothing_refused : ModeGen.refused = [] := by decide +kernel

/-- finish an equation between boolean combinations of `Mode.has m c` (any order / association) -/
macro "bool_cases" m:term : tactic =>
  `(tactic| (cases Mode.has $m 'r' <;> cases Mode.has $m 'w' <;> cases Mode.has $m 'x' <;> cases Mode.has $m 'a' <;>
             cases Mode.has $m '+' <;> cases Mode.has $m 'b' <;> cases Mode.has $m 't' <;> rfl))

theorem contains_eq (m : Str) (c : Char) : ModeGen.contains m [c] = Mode.has m c := by
  simp [ModeGen.contains, Mode.has, pyIn_char]

theorem create_eq (m : Str) : ModeGen.create m = Mode.create m := by
  simp only [ModeGen.create, Mode.create, contains_eq] <;> bool_cases m

theorem reading_eq (m : Str) : ModeGen.reading m = Mode.reading m := by
  simp only [ModeGen.reading, Mode.reading, contains_eq] <;> bool_cases m

theorem writing_eq (m : Str) : ModeGen.writing m = Mode.writing m := by
  simp only [ModeGen.writing, Mode.writing, contains_eq] <;> bool_cases m

theorem appending_eq (m : Str) : ModeGen.appending m = Mode.appending m := by
  simp only [ModeGen.appending, Mode.appending, contains_eq] <;> bool_cases m

theorem updating_eq (m : Str) : ModeGen.updating m = Mode.updating m := by
  simp only [ModeGen.updating, Mode.updating, contains_eq] <;> bool_cases m

theorem truncate_eq (m : Str) : ModeGen.truncate m = Mode.truncate m := by
  simp only [ModeGen.truncate, Mode.truncate, contains_eq] <;> bool_cases m

theorem exclusive_eq (m : Str) : ModeGen.exclusive m = Mode.exclusive m := by
  simp only [ModeGen.exclusive, Mode.exclusive, contains_eq] <;> bool_cases m

theorem binary_eq (m : Str) : ModeGen.binary m = Mode.binary m := by
  simp only [ModeGen.binary, Mode.binary, contains_eq] <;> bool_cases m

theorem text_eq (m : Str) : ModeGen.text m = Mode.text m := by
  simp only [ModeGen.text, Mode.text, contains_eq] <;> bool_cases m

/-- Python 3: `to_platform` is the identity (`six.PY2` is false) -/
theorem to_platform_eq (m : Str) : ModeGen.to_platform m = m := by
  simp [ModeGen.to_platform]

theorem to_platform_bin_eq (m : Str) : ModeGen.to_platform_bin m = Mode.toPlatformBin m := by
  simp only [ModeGen.to_platform_bin, Mode.toPlatformBin, to_platform_eq, pyReplace_nil, pyIn_char, Mode.has]
  rfl

theorem validate_eq (m : Str) : ModeGen.validate m = Mode.validate m := by
  cases m with
  | nil => rfl
  | cons c0 r =>
    have hs : pySumBool (List.map (fun c => pyIn c (c0 :: r)) (pyChars ['r', 'w', 'x', 'a'])) =
        (List.filter (fun c => Mode.has (c0 :: r) c) Mode.firstChars).length := by
      have : List.map (fun c => pyIn c (c0 :: r)) (pyChars ['r', 'w', 'x', 'a']) =
          List.map (fun c => Mode.has (c0 :: r) c) Mode.firstChars := by
        simp only [pyChars, List.map_map, Mode.firstChars, Mode.has]
        apply List.map_congr_left
        intro c _
        exact pyIn_char c _
      rw [this, pySumBool_map]
    simp only [ModeGen.validate, Mode.validate, pyIsSuperset, List.isEmpty_cons, pyStrIdx_cons_zero, hs,
      pyIn_char, pySet, Mode.has, Mode.firstChars]
    rfl

theorem validate_bin_eq (m : Str) : ModeGen.validate_bin m = Mode.validateBin m := by
  simp only [ModeGen.validate_bin, Mode.validateBin, validate_eq, contains_eq]
  cases Mode.validate m <;> rfl

/-! ### `Ref.parseBinMode` is `validate_bin` + the generated flag properties -/

/-- the flag record `Ref.parseBinMode` returns, computed with the GENERATED predicates -/
def genFlags (m : Str) : Ref.Mode :=
  { reading := ModeGen.reading m, writing := ModeGen.writing m, create := ModeGen.create m,
    truncate := ModeGen.truncate m, exclusive := ModeGen.exclusive m, appending := ModeGen.appending m }

theorem parseBinMode_eq_gen (m : Str) :
    Ref.parseBinMode m = if (ModeGen.validate_bin m).isOk then some (genFlags m) else none := by
  rw [validate_bin_eq]
  cases m with
  | nil => rfl
  | cons c0 r =>
    simp only [Ref.parseBinMode, Mode.validateBin, Mode.validate, genFlags, reading_eq, writing_eq, create_eq,
      truncate_eq, exclusive_eq, appending_eq, Mode.reading, Mode.writing, Mode.create, Mode.truncate,
      Mode.exclusive, Mode.appending, Mode.has, Ref.modeValidChars, Mode.validChars, Mode.firstChars,
      not_nodup_eq]
    by_cases h1 : ((c0 :: r).all fun x => ['r', 'w', 'x', 't', 'a', 'b', '+'].contains x) = true
    · by_cases h2 : ['r', 'w', 'x', 'a'].contains c0 = true
      · by_cases h3 : (c0 :: r).contains 't' = true
        · by_cases hb : (c0 :: r).contains 'b' = true <;>
          by_cases hd : ((c0 :: r).eraseDups.length != (c0 :: r).length) = true <;>
          by_cases hc : ((List.filter (fun x => (c0 :: r).contains x) ['r', 'w', 'x', 'a']).length != 1) = true <;>
          simp only [h1, h2, h3, hb, hd, hc, Res.isOk, Bool.not_true, Bool.false_eq_true, if_false, if_true,
            Bool.and_true, Bool.and_false] <;> rfl
        · by_cases hd : ((c0 :: r).eraseDups.length != (c0 :: r).length) = true <;>
          by_cases hc : ((List.filter (fun x => (c0 :: r).contains x) ['r', 'w', 'x', 'a']).length != 1) = true <;>
          simp only [h1, h2, h3, hd, hc, Res.isOk, Bool.not_true, Bool.false_eq_true, if_false, if_true,
            Bool.false_and] <;> rfl
      · simp only [h1, h2, Res.isOk, Bool.not_true, Bool.false_eq_true, if_false, if_true, Bool.not_false]
    · simp only [h1, Res.isOk, Bool.not_false, if_true]
      rfl


/-! non-vacuity -/
example : ModeGen.validate_bin "r+b".toList = .ok () ∧ ModeGen.validate_bin "rw".toList = .err .ValueError ∧
    ModeGen.validate_bin "rt".toList = .err .ValueError ∧ ModeGen.to_platform_bin "rt".toList = "rb".toList := by decide

end Fs.ModeGenEq
