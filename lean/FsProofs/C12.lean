/-
  C12 — fs.path functions obey their algebraic laws for every string.

  Property theorems only (helper lemmas live in FsProofs/Lemmas/PathLemmas.lean).
  All statements quantify over every `Str = List Char`, no length bound.
-/
import FsModel.Path
import FsModel.PathSpec
import FsProofs.Lemmas.PathLemmas
import FsProofs.Lemmas.ConfineLemmas

namespace Fs.C12
open Fs Fs.Path Fs.PathSpec Fs.PathLemmas

/-- a path built from clean components, absolute or relative -/
def mk (absolute : Bool) (cs : List Str) : Str :=
  (if absolute then ['/'] else []) ++ joinSlash cs

theorem mk_eq_mkp (a : Bool) (cs : List Str) : mk a cs = mkp a cs := rfl

/-! ## normpath -/

/-- normpath equals the component-wise resolution of its input (fast path included). -/
theorem normpath_eq_spec (p : Str) : normpath p = specNorm p := by
  exact normpath_eq_specNorm p

/-- it raises IllegalBackReference exactly when that resolution climbs above the start -/
theorem normpath_err_iff_climbs (p : Str) :
    normpath p = .err .IllegalBackReference ↔ climbs (splitSlash p) := by
  rw [normpath_eq_specNorm, specNorm, climbs]
  cases resolve (splitSlash p) <;> simp

theorem normpath_err_only_backref (p : Str) (e : Err) (h : normpath p = .err e) :
    e = .IllegalBackReference := by
  rw [normpath_eq_specNorm, specNorm] at h
  cases hr : resolve (splitSlash p) <;> rw [hr] at h <;> simp at h
  exact h.symm

/-- the result has no `.`, `..` or empty component -/
theorem normpath_clean (p q : Str) (h : normpath p = .ok q) :
    ∃ cs, Clean cs ∧ q = mk (startsWithSlash p) cs := by
  exact normpath_ok_clean p q h

theorem normpath_idem (p q : Str) (h : normpath p = .ok q) : normpath q = .ok q := by
  obtain ⟨cs, hc, rfl⟩ := normpath_ok_clean p q h
  exact normpath_mkp hc

/-- normalised paths are exactly the (absolute or relative) joins of clean components -/
theorem norm_iff_clean (q : Str) : Norm q ↔ ∃ a cs, Clean cs ∧ q = mk a cs := by
  constructor
  · intro h
    obtain ⟨cs, hc, hq⟩ := normpath_ok_clean q q h
    exact ⟨_, cs, hc, hq⟩
  · rintro ⟨a, cs, hc, rfl⟩
    exact normpath_mkp hc

/-! ## inverses on normalised paths -/

theorem iteratepath_mk (a : Bool) (cs : List Str) (h : Clean cs) :
    iteratepath (mk a cs) = .ok cs := by
  rw [mk_eq_mkp]
  unfold iteratepath
  rw [normpath_mkp h, bind_ok]
  simp only [relpath, lstripSlash_mkp h, pure_eq]
  by_cases hc : cs = []
  · subst hc; rfl
  · have : joinWith '/' cs ≠ [] := fun e => hc ((join_clean_eq_nil_iff h).1 e)
    simp [this, splitSlash, splitOn_join_clean h hc]

theorem split_mk_snoc (a : Bool) (cs : List Str) (c : Str) (h : Clean (cs ++ [c])) :
    split (mk a (cs ++ [c])) = (if cs = [] then (if a then ['/'] else []) else mk a cs, c) := by
  simp only [mk_eq_mkp]
  rw [split_mkp_snoc a cs c h]
  by_cases hc : cs = []
  · subst hc; cases a <;> rfl
  · simp [hc]

theorem combine_dirname_basename (q : Str) (h : Norm q) :
    combine (dirname q) (basename q) = q := by
  obtain ⟨cs, hc, hq⟩ := normpath_ok_clean q q h
  rw [hq]
  exact combine_split_mkp _ cs hc

theorem join_dirname_basename (q : Str) (h : Norm q) :
    join [dirname q, basename q] = .ok q := by
  obtain ⟨cs, hc, hq⟩ := normpath_ok_clean q q h
  rw [hq]
  exact join_split_mkp _ cs hc

theorem recursepath_eq_prefixes (a : Bool) (cs : List Str) (h : Clean cs) :
    recursepath (mk a cs) false = .ok ((List.range (cs.length + 1)).map fun i => mk true (cs.take i)) := by
  exact recursepath_mkp a cs h

theorem recursepath_reverse (p : Str) (l : List Str) (h : recursepath p false = .ok l) :
    recursepath p true = .ok l.reverse := by
  unfold recursepath at h ⊢
  split at h
  · next hp => simp only [hp, if_true]; cases h; rfl
  · next hp =>
    simp only [hp]
    cases hn : normpath p with
    | err e => rw [hn] at h; cases h
    | ok n =>
      rw [hn] at h
      simp only [bind_ok, pure_eq, Bool.false_eq_true, if_false, Res.ok.injEq] at h ⊢
      simp only [if_true, h]

theorem parts_eq (a : Bool) (cs : List Str) (h : Clean cs) :
    parts (mk a cs) = .ok ((if a then ['/'] else ['.', '/']) :: cs) := by
  rw [mk_eq_mkp]
  unfold parts
  rw [normpath_mkp h, bind_ok]
  simp only [stripSlash_mkp h, startsWithSlash_mkp h, pure_eq]
  by_cases hc : cs = []
  · subst hc; simp [joinWith]
  · have : joinWith '/' cs ≠ [] := fun e => hc ((join_clean_eq_nil_iff h).1 e)
    simp [this, splitSlash, splitOn_join_clean h hc]

/-- abspath / relpath only add or strip the leading slash -/
theorem abspath_relpath (a : Bool) (cs : List Str) (h : Clean cs) :
    abspath (mk a cs) = mk true cs ∧ relpath (mk a cs) = mk false cs := by
  simp only [mk_eq_mkp]
  refine ⟨?_, ?_⟩
  · unfold abspath
    rw [startsWithSlash_mkp h]
    cases a <;> simp [mkp]
  · rw [relpath, lstripSlash_mkp h]; simp [mkp]

/-! ## whole-component comparisons -/

theorem isbase_iff_component_prefix (a b : Bool) (as bs : List Str) (ha : Clean as) (hb : Clean bs) :
    isbase (mk a as) (mk b bs) = true ↔ as <+: bs := by
  exact isbase_mkp_iff a b as bs ha hb

theorem not_isbase_sibling_prefix : isbase ['/', 'a'] ['/', 'a', 'b'] = false := by decide

theorem isparent_iff_component_prefix (a : Bool) (as bs : List Str) (ha : Clean as) (hb : Clean bs) :
    isparent (mk a as) (mk a bs) = true ↔ as <+: bs := by
  exact isparent_mkp_iff a as bs ha hb

theorem not_isparent_sibling_prefix : isparent ['/', 'a'] ['/', 'a', 'b'] = false := by decide

theorem frombase_append (a : Bool) (as bs : List Str) (ha : Clean as) (hb : Clean bs)
    (hp : as <+: bs) : ∃ r, frombase (mk a as) (mk a bs) = .ok r ∧ mk a as ++ r = mk a bs := by
  have hpar := (isparent_mkp_iff a as bs ha hb).2 hp
  obtain ⟨t, ht⟩ := mkp_prefix (a := a) hp
  refine ⟨t, ?_, ht⟩
  simp only [mk_eq_mkp]
  rw [← ht] at hpar ⊢
  exact frombase_of_append _ _ hpar

theorem frombase_rejects (a : Bool) (as bs : List Str) (ha : Clean as) (hb : Clean bs)
    (hp : ¬ as <+: bs) : frombase (mk a as) (mk a bs) = .err .ValueError := by
  have hpar : isparent (mkp a as) (mkp a bs) = false := by
    rw [Bool.eq_false_iff]; intro h; exact hp ((isparent_mkp_iff a as bs ha hb).1 h)
  simp [mk_eq_mkp, frombase, hpar]

/-- **`frombase` never cuts inside a name** (since 696468c; `frombase("/", "foo")` used to be
`"oo"`): for any two normalised paths, absolute or relative in any combination, whatever it returns
consists of exactly the components of `path2` that follow those of `path1`; otherwise it raises. -/
theorem frombase_whole_components (a b : Bool) (as bs : List Str) (ha : Clean as) (hb : Clean bs)
    (r : Str) (h : frombase (mk a as) (mk b bs) = .ok r) :
    as <+: bs ∧ comps r = bs.drop as.length := by
  simp only [mk_eq_mkp] at h
  have hpar : isparent (mkp a as) (mkp b bs) = true := by
    cases hp : isparent (mkp a as) (mkp b bs) with
    | true => rfl
    | false => simp [frombase, hp] at h
  by_cases hab : a = b
  · subst hab
    have hp := (isparent_mkp_iff a as bs ha hb).1 hpar
    refine ⟨hp, ?_⟩
    obtain ⟨rest, rfl⟩ := hp
    have hrest : Clean rest := (clean_append.1 hb).2
    rw [List.drop_left]
    obtain ⟨t, ht⟩ := mkp_prefix (a := a) (List.prefix_append as rest)
    rw [← ht] at hpar h
    rw [frombase_of_append _ _ hpar] at h
    have hr : r = t := by cases h; rfl
    subst hr
    -- `t` is what follows `mkp a as` in `mkp a (as ++ rest)`
    by_cases h1 : as = []
    · subst h1
      have : r = joinWith '/' rest := by
        have h3 : (if a then ['/'] else []) ++ r = (if a then ['/'] else []) ++ joinWith '/' rest := by
          simpa [mkp, joinWith] using ht
        exact List.append_cancel_left h3
      rw [this]; exact ConfineLemmas.comps_join_clean hrest
    · by_cases h2 : rest = []
      · subst h2
        have : r = [] := by
          have h3 : mkp a as ++ r = mkp a as ++ [] := by rw [ht, List.append_nil, List.append_nil]
          exact List.append_cancel_left h3
        rw [this]; decide
      · have : r = '/' :: joinWith '/' rest := by
          have := ht
          rw [mkp, mkp, joinWith_append _ _ _ h1 h2, ← List.append_assoc] at this
          exact List.append_cancel_left this
        rw [this, show '/' :: joinWith '/' rest = [] ++ '/' :: joinWith '/' rest from rfl,
          ConfineLemmas.comps_append_sep, ConfineLemmas.comps_join_clean hrest]
        rfl
  · have hnil := (isparent_mkp_mixed a b as bs ha hb hab).1 hpar
    subst hnil
    refine ⟨List.nil_prefix, ?_⟩
    simp only [List.length_nil, List.drop_zero]
    cases a <;> cases b
    · exact absurd rfl hab
    · -- path1 = "", path2 absolute
      have hs : startsWith (mkp true bs) (mkp false []) = true := by
        cases hm : mkp true bs <;> rfl
      have : frombase (mkp false []) (mkp true bs) = .ok (mkp true bs) := by
        simp only [frombase, hpar, hs, Bool.not_true, Bool.false_eq_true, if_false]
        rfl
      rw [this] at h; cases h
      exact ConfineLemmas.comps_mkp hb
    · -- path1 = "/", path2 relative
      have hs : startsWith (mkp false bs) (mkp true []) = false := by
        have := startsWithSlash_mkp (a := false) hb
        cases hm : mkp false bs with
        | nil => rfl
        | cons c cs =>
          rw [hm, startsWithSlash_cons] at this
          have hc : (c == '/') = false := by simpa using this
          show (c == '/' && startsWith cs []) = false
          rw [hc]; rfl
      have : frombase (mkp true []) (mkp false bs) = .ok (mkp false bs) := by
        simp only [frombase, hpar, hs, Bool.not_true, Bool.not_false, Bool.false_eq_true, if_false, if_true]
        have : rstripSlash (mkp true []) = [] := by decide
        rw [this]; rfl
      rw [this] at h; cases h
      exact ConfineLemmas.comps_mkp hb
    · exact absurd rfl hab

example : frombase "/".toList "foo".toList = .ok "foo".toList := by decide
example : frombase "foo".toList "/foo/bar".toList = .err .ValueError := by decide

theorem relativefrom_resolves (a b : Bool) (as bs : List Str) (ha : Clean as) (hb : Clean bs) :
    ∃ r, relativefrom (mk a as) (mk b bs) = .ok r ∧ resolve (as ++ splitSlash r) = some bs := by
  refine ⟨_, ?_, relativefrom_core as bs ha hb⟩
  unfold relativefrom
  rw [iteratepath_mk a as ha, iteratepath_mk b bs hb]
  rfl

theorem issamedir_iff_init_eq (a : Bool) (as bs : List Str) (ha : Clean as) (hb : Clean bs)
    (hna : as ≠ []) (hnb : bs ≠ []) :
    issamedir (mk a as) (mk a bs) = .ok (decide (as.dropLast = bs.dropLast)) := by
  exact issamedir_mkp a as bs ha hb hna hnb

/-! ## splitext (not named in the property statement; characterises the code as it is)

`splitext` on a normalised path: no dot in the last component or a dot file → the path itself and no
extension; otherwise, when what precedes the last dot is itself a clean component, root ++ ext is the
path (`splitext_concat_partial`).  The hypothesis is needed: a last component whose stem consists of
dots only (`..a`, `...a`) is resolved away by the `join` inside `splitext`
(`splitext_dots_stem_witness`, replayed on fs.path.splitext by the correspondence) — `os.path.splitext`
returns the path unchanged there.  Recorded in DESIGN §6 C12 as an observation outside C12's statement. -/

theorem splitext_no_dot (a : Bool) (cs : List Str) (c : Str) (h : Clean (cs ++ [c])) (hd : '.' ∉ c) :
    splitext (mk a (cs ++ [c])) = .ok (mk a (cs ++ [c]), []) := by
  simp only [mk_eq_mkp]
  unfold splitext
  rw [split_mkp_snoc a cs c h]
  simp only [rsplit1_none '.' c hd]
  split <;> rfl

theorem splitext_dotfile (a : Bool) (cs : List Str) (r : Str) (h : Clean (cs ++ [('.' :: r)])) (hd : '.' ∉ r) :
    splitext (mk a (cs ++ [('.' :: r)])) = .ok (mk a (cs ++ [('.' :: r)]), []) := by
  simp only [mk_eq_mkp]
  unfold splitext
  rw [split_mkp_snoc a cs _ h]
  have : List.count '.' r = 0 := List.count_eq_zero.2 hd
  simp [this]

theorem splitext_concat_partial (a : Bool) (cs : List Str) (stem ext : Str)
    (h : Clean (cs ++ [stem ++ '.' :: ext])) (hs : CleanComp stem) (hext : '.' ∉ ext) :
    splitext (mk a (cs ++ [stem ++ '.' :: ext])) = .ok (mk a (cs ++ [stem]), '.' :: ext) := by
  have hcs : Clean cs := (clean_append.1 h).1
  have hst : Clean (cs ++ [stem]) := clean_append.2 ⟨hcs, clean_cons.2 ⟨hs, by intro c hc; cases hc⟩⟩
  simp only [mk_eq_mkp]
  unfold splitext
  rw [split_mkp_snoc a cs _ h]
  have hcond : ((stem ++ '.' :: ext).head? == some '.' && (stem ++ '.' :: ext).count '.' == 1) = false := by
    obtain ⟨hne, -⟩ := hs
    cases stem with
    | nil => exact absurd rfl hne
    | cons x xs =>
      by_cases hx : x = '.'
      · subst hx
        simp [List.count_append]
      · simp [hx]
  simp only [hcond, rsplit1_some '.' stem ext hext]
  have hj := join_split_mkp a (cs ++ [stem]) hst
  rw [split_mkp_snoc a cs stem hst] at hj
  simp only [Bool.false_eq_true, if_false] 
  rw [hj]; rfl


theorem splitext_dots_stem_witness :
    splitext "foo/..a".toList = .ok ("foo".toList, ".a".toList) ∧
    splitext "foo/...a".toList = .ok ([], ".a".toList) := by decide

example : splitext "/foo/bar.tar.gz".toList = .ok ("/foo/bar.tar".toList, ".gz".toList) := by decide
example : CleanComp "bar.tar".toList := by simp [CleanComp, dot, dotdot]

/-! ## non-vacuity -/

example : Clean [['f', 'o', 'o'], ['a', '.', 'b'], ['*', '{', 'x', '}']] := by
  intro c hc; simp at hc; rcases hc with rfl | rfl | rfl <;> simp [CleanComp, dot, dotdot]

example : normpath "/foo//bar/../a.b/".toList = .ok "/foo/a.b".toList := by decide
example : normpath "foo/../../bar".toList = .err .IllegalBackReference := by decide

end Fs.C12
