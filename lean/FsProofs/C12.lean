/-
  C12 — fs.path functions obey their algebraic laws for every string.

  Property theorems only (helper lemmas live in FsProofs/Lemmas/PathLemmas.lean).
  All statements quantify over every `Str = List Char`, no length bound.
-/
import FsModel.Path
import FsModel.PathSpec
import FsProofs.Lemmas.PathLemmas

namespace Fs.C12
open Fs Fs.Path Fs.PathSpec

/-- a path built from clean components, absolute or relative -/
def mk (absolute : Bool) (cs : List Str) : Str :=
  (if absolute then ['/'] else []) ++ joinSlash cs

/-! ## normpath -/

/-- normpath equals the component-wise resolution of its input (fast path included). -/
theorem normpath_eq_spec (p : Str) : normpath p = specNorm p := by
  sorry

/-- it raises IllegalBackReference exactly when that resolution climbs above the start -/
theorem normpath_err_iff_climbs (p : Str) :
    normpath p = .err .IllegalBackReference ↔ climbs (splitSlash p) := by
  sorry

theorem normpath_err_only_backref (p : Str) (e : Err) (h : normpath p = .err e) :
    e = .IllegalBackReference := by
  sorry

/-- the result has no `.`, `..` or empty component -/
theorem normpath_clean (p q : Str) (h : normpath p = .ok q) :
    ∃ cs, Clean cs ∧ q = mk (startsWithSlash p) cs := by
  sorry

theorem normpath_idem (p q : Str) (h : normpath p = .ok q) : normpath q = .ok q := by
  sorry

/-- normalised paths are exactly the (absolute or relative) joins of clean components -/
theorem norm_iff_clean (q : Str) : Norm q ↔ ∃ a cs, Clean cs ∧ q = mk a cs := by
  sorry

/-! ## inverses on normalised paths -/

theorem iteratepath_mk (a : Bool) (cs : List Str) (h : Clean cs) :
    iteratepath (mk a cs) = .ok cs := by
  sorry

theorem split_mk_snoc (a : Bool) (cs : List Str) (c : Str) (h : Clean (cs ++ [c])) :
    split (mk a (cs ++ [c])) = (if cs = [] then (if a then ['/'] else []) else mk a cs, c) := by
  sorry

theorem combine_dirname_basename (q : Str) (h : Norm q) :
    combine (dirname q) (basename q) = q := by
  sorry

theorem join_dirname_basename (q : Str) (h : Norm q) :
    join [dirname q, basename q] = .ok q := by
  sorry

theorem recursepath_eq_prefixes (a : Bool) (cs : List Str) (h : Clean cs) :
    recursepath (mk a cs) false = .ok ((List.range (cs.length + 1)).map fun i => mk true (cs.take i)) := by
  sorry

theorem recursepath_reverse (p : Str) (l : List Str) (h : recursepath p false = .ok l) :
    recursepath p true = .ok l.reverse := by
  sorry

theorem parts_eq (a : Bool) (cs : List Str) (h : Clean cs) :
    parts (mk a cs) = .ok ((if a then ['/'] else ['.', '/']) :: cs) := by
  sorry

/-- abspath / relpath only add or strip the leading slash -/
theorem abspath_relpath (a : Bool) (cs : List Str) (h : Clean cs) :
    abspath (mk a cs) = mk true cs ∧ relpath (mk a cs) = mk false cs := by
  sorry

/-! ## whole-component comparisons -/

theorem isbase_iff_component_prefix (a b : Bool) (as bs : List Str) (ha : Clean as) (hb : Clean bs) :
    isbase (mk a as) (mk b bs) = true ↔ as <+: bs := by
  sorry

theorem not_isbase_sibling_prefix : isbase ['/', 'a'] ['/', 'a', 'b'] = false := by decide

theorem isparent_iff_component_prefix (a : Bool) (as bs : List Str) (ha : Clean as) (hb : Clean bs) :
    isparent (mk a as) (mk a bs) = true ↔ as <+: bs := by
  sorry

theorem not_isparent_sibling_prefix : isparent ['/', 'a'] ['/', 'a', 'b'] = false := by decide

theorem frombase_append (a : Bool) (as bs : List Str) (ha : Clean as) (hb : Clean bs)
    (hp : as <+: bs) : ∃ r, frombase (mk a as) (mk a bs) = .ok r ∧ mk a as ++ r = mk a bs := by
  sorry

theorem frombase_rejects (a : Bool) (as bs : List Str) (ha : Clean as) (hb : Clean bs)
    (hp : ¬ as <+: bs) : frombase (mk a as) (mk a bs) = .err .ValueError := by
  sorry

theorem relativefrom_resolves (a b : Bool) (as bs : List Str) (ha : Clean as) (hb : Clean bs) :
    ∃ r, relativefrom (mk a as) (mk b bs) = .ok r ∧ resolve (as ++ splitSlash r) = some bs := by
  sorry

theorem issamedir_iff_init_eq (a : Bool) (as bs : List Str) (ha : Clean as) (hb : Clean bs)
    (hna : as ≠ []) (hnb : bs ≠ []) :
    issamedir (mk a as) (mk a bs) = .ok (decide (as.dropLast = bs.dropLast)) := by
  sorry

/-! ## non-vacuity -/

example : Clean [['f', 'o', 'o'], ['a', '.', 'b'], ['*', '{', 'x', '}']] := by
  intro c hc; simp at hc; rcases hc with rfl | rfl | rfl <;> simp [CleanComp, dot, dotdot]

example : normpath "/foo//bar/../a.b/".toList = .ok "/foo/a.b".toList := by decide
example : normpath "foo/../../bar".toList = .err .IllegalBackReference := by decide

end Fs.C12
