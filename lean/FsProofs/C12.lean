/-
  C12 — fs.path functions obey their algebraic laws for every string.

  Property theorems only (helper lemmas live in FsProofs/Lemmas/PathLemmas.lean).
  All statements quantify over every `Str = List Char`, no length bound.
-/
import FsModel.Path
import FsModel.PathSpec
import FsProofs.Lemmas.PathLemmas

namespace Fs.C12
open Fs Fs.Path Fs.PathSpec Fs.PathLemmas

/-- a path built from clean components, absolute or relative -/
def mk (absolute : Bool) (cs : List Str) : Str :=
  (if absolute then ['/'] else []) ++ joinSlash cs

theorem mk_eq_mkp (a : Bool) (cs : List Str) : mk a cs = mkp a cs := rfl

/-! ## normpath -/

/-- normpath equals the component-wise resolution of its input (fast path included). -/
theorem normpath_eq_spec (p : Str) : normpath p = specNorm p := by
  exact normpath_eq_specNorm p

/-- it raises IllegalBackReference exactly when that resolution climbs above the start -/
theorem normpath_err_iff_climbs (p : Str) :
    normpath p = .err .IllegalBackReference ↔ climbs (splitSlash p) := by
  rw [normpath_eq_specNorm, specNorm, climbs]
  cases resolve (splitSlash p) <;> simp

theorem normpath_err_only_backref (p : Str) (e : Err) (h : normpath p = .err e) :
    e = .IllegalBackReference := by
  rw [normpath_eq_specNorm, specNorm] at h
  cases hr : resolve (splitSlash p) <;> rw [hr] at h <;> simp at h
  exact h.symm

/-- the result has no `.`, `..` or empty component -/
theorem normpath_clean (p q : Str) (h : normpath p = .ok q) :
    ∃ cs, Clean cs ∧ q = mk (startsWithSlash p) cs := by
  exact normpath_ok_clean p q h

theorem normpath_idem (p q : Str) (h : normpath p = .ok q) : normpath q = .ok q := by
  obtain ⟨cs, hc, rfl⟩ := normpath_ok_clean p q h
  exact normpath_mkp hc

/-- normalised paths are exactly the (absolute or relative) joins of clean components -/
theorem norm_iff_clean (q : Str) : Norm q ↔ ∃ a cs, Clean cs ∧ q = mk a cs := by
  constructor
  · intro h
    obtain ⟨cs, hc, hq⟩ := normpath_ok_clean q q h
    exact ⟨_, cs, hc, hq⟩
  · rintro ⟨a, cs, hc, rfl⟩
    exact normpath_mkp hc

/-! ## inverses on normalised paths -/

theorem iteratepath_mk (a : Bool) (cs : List Str) (h : Clean cs) :
    iteratepath (mk a cs) = .ok cs := by
  rw [mk_eq_mkp]
  unfold iteratepath
  rw [normpath_mkp h, bind_ok]
  simp only [relpath, lstripSlash_mkp h, pure_eq]
  by_cases hc : cs = []
  · subst hc; rfl
  · have : joinWith '/' cs ≠ [] := fun e => hc ((join_clean_eq_nil_iff h).1 e)
    simp [this, splitSlash, splitOn_join_clean h hc]

theorem split_mk_snoc (a : Bool) (cs : List Str) (c : Str) (h : Clean (cs ++ [c])) :
    split (mk a (cs ++ [c])) = (if cs = [] then (if a then ['/'] else []) else mk a cs, c) := by
  simp only [mk_eq_mkp]
  rw [split_mkp_snoc a cs c h]
  by_cases hc : cs = []
  · subst hc; cases a <;> rfl
  · simp [hc]

theorem combine_dirname_basename (q : Str) (h : Norm q) :
    combine (dirname q) (basename q) = q := by
  obtain ⟨cs, hc, hq⟩ := normpath_ok_clean q q h
  rw [hq]
  exact combine_split_mkp _ cs hc

theorem join_dirname_basename (q : Str) (h : Norm q) :
    join [dirname q, basename q] = .ok q := by
  obtain ⟨cs, hc, hq⟩ := normpath_ok_clean q q h
  rw [hq]
  exact join_split_mkp _ cs hc

theorem recursepath_eq_prefixes (a : Bool) (cs : List Str) (h : Clean cs) :
    recursepath (mk a cs) false = .ok ((List.range (cs.length + 1)).map fun i => mk true (cs.take i)) := by
  exact recursepath_mkp a cs h

theorem recursepath_reverse (p : Str) (l : List Str) (h : recursepath p false = .ok l) :
    recursepath p true = .ok l.reverse := by
  unfold recursepath at h ⊢
  split at h
  · next hp => simp only [hp, if_true]; cases h; rfl
  · next hp =>
    simp only [hp]
    cases hn : normpath p with
    | err e => rw [hn] at h; cases h
    | ok n =>
      rw [hn] at h
      simp only [bind_ok, pure_eq, Bool.false_eq_true, if_false, Res.ok.injEq] at h ⊢
      simp only [if_true, h]

theorem parts_eq (a : Bool) (cs : List Str) (h : Clean cs) :
    parts (mk a cs) = .ok ((if a then ['/'] else ['.', '/']) :: cs) := by
  rw [mk_eq_mkp]
  unfold parts
  rw [normpath_mkp h, bind_ok]
  simp only [stripSlash_mkp h, startsWithSlash_mkp h, pure_eq]
  by_cases hc : cs = []
  · subst hc; simp [joinWith]
  · have : joinWith '/' cs ≠ [] := fun e => hc ((join_clean_eq_nil_iff h).1 e)
    simp [this, splitSlash, splitOn_join_clean h hc]

/-- abspath / relpath only add or strip the leading slash -/
theorem abspath_relpath (a : Bool) (cs : List Str) (h : Clean cs) :
    abspath (mk a cs) = mk true cs ∧ relpath (mk a cs) = mk false cs := by
  simp only [mk_eq_mkp]
  refine ⟨?_, ?_⟩
  · unfold abspath
    rw [startsWithSlash_mkp h]
    cases a <;> simp [mkp]
  · rw [relpath, lstripSlash_mkp h]; simp [mkp]

/-! ## whole-component comparisons -/

theorem isbase_iff_component_prefix (a b : Bool) (as bs : List Str) (ha : Clean as) (hb : Clean bs) :
    isbase (mk a as) (mk b bs) = true ↔ as <+: bs := by
  exact isbase_mkp_iff a b as bs ha hb

theorem not_isbase_sibling_prefix : isbase ['/', 'a'] ['/', 'a', 'b'] = false := by decide

theorem isparent_iff_component_prefix (a : Bool) (as bs : List Str) (ha : Clean as) (hb : Clean bs) :
    isparent (mk a as) (mk a bs) = true ↔ as <+: bs := by
  exact isparent_mkp_iff a as bs ha hb

theorem not_isparent_sibling_prefix : isparent ['/', 'a'] ['/', 'a', 'b'] = false := by decide

theorem frombase_append (a : Bool) (as bs : List Str) (ha : Clean as) (hb : Clean bs)
    (hp : as <+: bs) : ∃ r, frombase (mk a as) (mk a bs) = .ok r ∧ mk a as ++ r = mk a bs := by
  have hpar := (isparent_mkp_iff a as bs ha hb).2 hp
  obtain ⟨t, ht⟩ := mkp_prefix (a := a) hp
  refine ⟨t, ?_, ht⟩
  simp only [mk_eq_mkp, frombase, hpar, Bool.not_true, Bool.false_eq_true, if_false]
  rw [← ht, List.drop_left]

theorem frombase_rejects (a : Bool) (as bs : List Str) (ha : Clean as) (hb : Clean bs)
    (hp : ¬ as <+: bs) : frombase (mk a as) (mk a bs) = .err .ValueError := by
  have hpar : isparent (mkp a as) (mkp a bs) = false := by
    rw [Bool.eq_false_iff]; intro h; exact hp ((isparent_mkp_iff a as bs ha hb).1 h)
  simp [mk_eq_mkp, frombase, hpar]

theorem relativefrom_resolves (a b : Bool) (as bs : List Str) (ha : Clean as) (hb : Clean bs) :
    ∃ r, relativefrom (mk a as) (mk b bs) = .ok r ∧ resolve (as ++ splitSlash r) = some bs := by
  refine ⟨_, ?_, relativefrom_core as bs ha hb⟩
  unfold relativefrom
  rw [iteratepath_mk a as ha, iteratepath_mk b bs hb]
  rfl

theorem issamedir_iff_init_eq (a : Bool) (as bs : List Str) (ha : Clean as) (hb : Clean bs)
    (hna : as ≠ []) (hnb : bs ≠ []) :
    issamedir (mk a as) (mk a bs) = .ok (decide (as.dropLast = bs.dropLast)) := by
  exact issamedir_mkp a as bs ha hb hna hnb

/-! ## non-vacuity -/

example : Clean [['f', 'o', 'o'], ['a', '.', 'b'], ['*', '{', 'x', '}']] := by
  intro c hc; simp at hc; rcases hc with rfl | rfl | rfl <;> simp [CleanComp, dot, dotdot]

example : normpath "/foo//bar/../a.b/".toList = .ok "/foo/a.b".toList := by decide
example : normpath "foo/../../bar".toList = .err .IllegalBackReference := by decide

end Fs.C12
