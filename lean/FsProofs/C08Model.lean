/-
  C08 (model part) — theorems about the concurrency model alone (`FsModel/Conc.lean`): they do
  not depend on the generated lock table, so they are compiled once.  The table theorems and
  the property statement for MemoryFS are in `FsProofs/C08.lean`.
-/
import FsModel.Conc
import FsProofs.Lemmas.ConcLemmas

namespace Fs.C08
open Fs Fs.Ref Fs.Conc

/-! ## 1. one locked segment per call ⇒ linearizable (any number of threads and calls) -/

/-- If every call is a single locked block whose body is the whole reference operation, then
every executable complete schedule produces per-call results and a final tree that a sequential
order of the same calls produces.  No bound on the number of threads. -/
theorem single_locked_segment_linearizable (impl : Impl) (calls : List Op) (s : State)
    (h : ∀ c ∈ calls, segments impl c = lockedProg 0 [whole c]) : Linearizable impl calls s := by
  intro sched c' hexec hdone
  have hprogs : calls.map (segments impl) = (calls.map fun c => [whole c]).map (lockedProg 0) := by
    rw [List.map_map]
    exact List.map_congr_left (fun c hc => h c hc)
  unfold initCfg at hexec
  rw [hprogs] at hexec
  obtain ⟨order, hperm, hst⟩ :=
    locked_blocks_serialize (calls.map fun c => [whole c]) s (calls.map fun _ => ({} : Loc)) (by simp)
      sched c' hexec hdone
  refine ⟨order, by simpa using hperm, ?_⟩
  have hnd : order.Nodup := hperm.nodup_iff.mpr List.nodup_range
  have key := seqExec_whole calls order (s, calls.map fun _ => ({} : Loc)) (s, calls.map fun _ => none)
    hnd rfl (by simp) (by
      intro i _ l hl
      simp only [List.getElem?_map] at hl
      cases hc : calls[i]? with
      | none => simp [hc] at hl
      | some _ => simp [hc] at hl; subst hl; rfl) (by simp)
  unfold obs seqObs
  have h1 : c'.sh = (seqExec (calls.map fun c => [whole c]) order (s, calls.map fun _ => ({} : Loc))).1 :=
    congrArg Prod.fst hst
  have h2 : c'.locs = (seqExec (calls.map fun c => [whole c]) order (s, calls.map fun _ => ({} : Loc))).2 :=
    congrArg Prod.snd hst
  rw [h1, h2, key.1, key.2]

/-- the hypothesis is met as soon as the implementation runs the call atomically -/
theorem segments_of_atomic (impl : Impl) (c : Op) (h : isAtomic impl c = true) :
    segments impl c = lockedProg 0 [whole c] := by
  cases c <;> simp_all [segments, isAtomic]

/-- no executable schedule of single-locked calls ever deadlocks -/
theorem single_lock_never_deadlocks (impl : Impl) (calls : List Op) (s : State)
    (h : ∀ c ∈ calls, isAtomic impl c = true) (sched : List Nat) (c' : Cfg State Loc)
    (hexec : (initCfg impl s calls).exec sched = some c') : c'.deadlocked = false := by
  have hprogs : calls.map (segments impl) = (calls.map fun c => [whole c]).map (lockedProg 0) := by
    rw [List.map_map]
    exact List.map_congr_left (fun c hc => segments_of_atomic impl c (h c hc))
  unfold initCfg at hexec
  rw [hprogs] at hexec
  exact inv_not_deadlocked (by simp) (inv_exec (by simp) sched (inv_init _ s _) hexec)

/-! ## 3. two locks -/

/-- Documented limit, not a finding (the property is about calls on ONE filesystem object):
`copy_dir(A, B) ‖ copy_dir(B, A)` — each takes `src.lock()` then `dst.lock()`; after both first
acquisitions neither can proceed. -/
theorem copy_dir_ab_ba_deadlock_counterexample :
    ((Cfg.init () [(), ()] [twoLockProg (σ := Unit) (τ := Unit) 0 1 [], twoLockProg 1 0 []]).exec [0, 1]).any
      (fun c => c.deadlocked) = true := by decide +kernel

/-- with one global order (both take lock 0 then lock 1) every maximal run finishes -/
theorem same_order_no_deadlock :
    ((Cfg.init () [(), ()] [twoLockProg (σ := Unit) (τ := Unit) 0 1 [], twoLockProg 0 1 []]).allRuns).all
      (fun r => r.2.done) = true := by decide +kernel

/-! ## 4. counterexamples

The first three are the races of the library as it WAS (lock-free variants of the model): they
show that the lock the table theorems of `C08.lean` insist on is necessary, and were reproduced on
the real code before the fixes 0e32556 / 652becf / feefeca.  The harness keeps exploring the same
call sets on the current code, where they must stay linearizable (`…_repaired` in `C08.lean`). -/

/-- `MemoryFS.removedir` as it was coded before 0e32556 (isempty and removetree = two locked blocks) -/
def splitRemovedir : Impl :=
  { removedirAtomic := false, moveAtomic := true, writebytesAtomic := true, readbytesAtomic := true }

def raceTree : State := { root := .dir [("d".toList, .dir [])], closed := false }
def raceCalls : List Op := [.removedir "d".toList, .writebytes "d/x".toList [1]]

/-- the schedule: removedir's `isempty` block, the whole writebytes, removedir's `removetree` block.
Both calls succeed and the file just written is gone; sequentially either writebytes fails
(ResourceNotFound) or removedir fails (DirectoryNotEmpty). -/
theorem memfs_removedir_race_without_lock_counterexample :
    scheduleShows splitRemovedir raceTree raceCalls [0, 0, 0, 1, 1, 1, 0, 0, 0]
      ([some (.ok .unit), some (.ok .unit)], []) false = true := by decide +kernel

/-- `Ref.step` is the sequential meaning of the whole call also for the split implementation: the
two locked blocks of `removedir` (validate / root check / `isempty`, then `removetree`) run without
interference give exactly `Ref.step s (.removedir p)` — result and tree, for every state and path.
(The bodies are those of `segments splitRemovedir (.removedir p)`.) -/
theorem removedir_split_sequential_meaning (s : State) (p : Str) (hc : s.closed = false) :
    runBody [fun s l =>
          match validate p with
          | .err e => (s, { out := some (.err e) })
          | .ok [] => (s, { out := some (.err .RemoveRootError) })
          | .ok _ => sub (.isempty p) (fun v => if v = .bool true then none else some (.err .DirectoryNotEmpty)) s l,
        whole (.removetree p)] (s, ({} : Loc))
      = ((step s (.removedir p)).1, { out := some (step s (.removedir p)).2 }) := by
  cases hv : validate p with
  | err e =>
    simp [runBody, step, hc, Op.paths, mapM_validate_single_err p e hv, whole, fail]
  | ok cs =>
    cases cs with
    | nil => simp [runBody, step, hc, Op.paths, mapM_validate_single_ok p _ hv, whole, fail, step1]
    | cons c cs =>
      simp only [runBody, sub, whole, step, hc, Op.paths, mapM_validate_single_ok p _ hv, step1]
      cases hg : s.root.get (c :: cs) with
      | none => simp [fail]
      | some n =>
        cases n with
        | file b => simp [fail]
        | dir es =>
          cases es with
          | nil => simp [done, upd, hv, hc, hg, Op.paths]
          | cons e es => simp [done, fail]

example : segments splitRemovedir (.removedir "d".toList) =
    lockedProg 0 [fun s l =>
          match validate "d".toList with
          | .err e => (s, { out := some (.err e) })
          | .ok [] => (s, { out := some (.err .RemoveRootError) })
          | .ok _ => sub (.isempty "d".toList) (fun v => if v = .bool true then none else some (.err .DirectoryNotEmpty)) s l]
      ++ lockedProg 0 [whole (.removetree "d".toList)] := rfl

/-- hence the split implementation is not linearizable -/
theorem memfs_removedir_split_not_linearizable :
    ¬ Linearizable splitRemovedir raceCalls raceTree := by
  intro h
  obtain ⟨c, hexec, hdone, _, hlin⟩ := scheduleShows_spec memfs_removedir_race_without_lock_counterexample
  obtain ⟨order, hperm, hobs⟩ := h _ c hexec hdone
  have hmem : order ∈ perms (List.range raceCalls.length) := by
    have : order = [0, 1] ∨ order = [1, 0] := by
      have hl := hperm.length_eq
      have h0 : 0 ∈ order := hperm.mem_iff.mpr (by decide)
      have h1 : 1 ∈ order := hperm.mem_iff.mpr (by decide)
      have hr : ∀ a ∈ order, a = 0 ∨ a = 1 := fun a ha => by
        have := hperm.mem_iff.mp ha
        simp [raceCalls] at this; omega
      match order, hl, h0, h1, hr with
      | [a, b], _, h0, h1, hr =>
        have ha := hr a (by simp); have hb := hr b (by simp)
        rcases ha with rfl | rfl <;> rcases hb with rfl | rfl <;> simp_all
    rcases this with rfl | rfl <;> decide
  have : linOk raceCalls raceTree c = true := by
    unfold linOk
    exact List.any_eq_true.mpr ⟨order, hmem, by simp [hobs]⟩
  rw [hlin] at this
  cases this

/-- `FS.move` as it was coded before 652becf: `exists(dst)` checked outside the lock -/
def baseMove : Impl :=
  { removedirAtomic := true, moveAtomic := false, writebytesAtomic := true, readbytesAtomic := true }

def moveTree : State := { root := .dir [("a".toList, .file [7])], closed := false }
def moveCalls : List Op := [.move "a".toList "b".toList false, .writebytes "b".toList [1, 2]]

/-- `move(a, b, overwrite=False)` sees "b does not exist"; `writebytes(b)` creates it; the locked
copy+remove then overwrites b.  Both succeed and the written data is lost; sequentially either
the move fails with DestinationExists or b ends with the written bytes. -/
theorem fs_move_check_then_act_without_lock_counterexample :
    scheduleShows baseMove moveTree moveCalls [0, 0, 0, 1, 1, 1, 0, 0, 0, 0, 0, 0]
      ([some (.ok .unit), some (.ok .unit)], [(["b".toList], some [7])]) false = true := by decide +kernel

/-- `FS.writebytes` as it was coded before feefeca = open (create+truncate, locked) then write (entry lock only) -/
def torn : Impl :=
  { removedirAtomic := true, moveAtomic := true, writebytesAtomic := false, readbytesAtomic := false }

def tornTree : State := { root := .dir [], closed := false }
def tornCalls : List Op := [.writebytes "f".toList [1], .writebytes "f".toList [2, 3]]

/-- both writers open (truncate) first, then `[2,3]` is written, then `[1]` lands at offset 0:
the file holds `[1,3]`, which neither order of the two calls produces. -/
theorem memfs_writebytes_race_without_lock_counterexample :
    scheduleShows torn tornTree tornCalls [0, 0, 0, 1, 1, 1, 1, 0]
      ([some (.ok .unit), some (.ok .unit)], [(["f".toList], some [1, 3])]) false = true := by decide +kernel

/-- the model enumerates every maximal schedule: for the removedir race exactly one of the three
segment-level interleavings is the bad one -/
theorem memfs_removedir_race_runs :
    ((initCfg splitRemovedir raceTree raceCalls).allRuns).map
      (fun r => (r.1, r.2.done, linOk raceCalls raceTree r.2)) =
    [([0, 0, 0, 0, 0, 0, 1, 1, 1], true, true),
     ([0, 0, 0, 1, 1, 1, 0, 0, 0], true, false),
     ([1, 1, 1, 0, 0, 0, 0, 0, 0], true, true)] := by decide +kernel

/-! ## 5. LRUCache (process-wide pattern caches of fs.glob / fs.wildcard) -/

open Fs.Conc.Lru in
/-- `lru_cache_model`: two `cache[k]` on the same key: after both fetched the value and the first
deleted the key, the second's `__delitem__` raises KeyError (schedule 0 1 0 1 0 1) -/
theorem lru_getitem_race_counterexample :
    ((Cfg.init [(5, 50)] [({} : LLoc), {}] [getitem 5, getitem 5]).exec [0, 1, 0, 1, 0, 1]).any
      (fun c => c.locs.map (·.raised) == [false, true] && c.sh == [(5, 50)]) = true := by decide +kernel

open Fs.Conc.Lru in
/-- …but the callers (`wildcard.match/imatch`, `glob.match/imatch`, `Globber._make_iter`) wrap the
lookup in `try … except KeyError: compile`: under EVERY schedule of two lookups of the same key no
KeyError escapes and both calls end up with the right compiled pattern -/
theorem lru_lookup_correct :
    ([[(5, 50)], [(1, 10), (5, 50)], [(5, 50), (1, 10)], [], [(1, 10)]].all fun c0 =>
      let c := Cfg.init c0 [({} : LLoc), {}] [lookupCall 5 50, lookupCall 5 50]
      c.forallRuns (fun r => r.done && r.locs.all (fun l => !l.raised && l.val == some 50)) c.size) = true := by
  decide +kernel

open Fs.Conc.Lru in
/-- the complete caller pattern (`try: cache[k]` / `except KeyError: compile; cache[k] = pat`) on a
FULL cache (capacity 2) not holding the key — both threads miss, both decide to evict, both
store: under every schedule no KeyError escapes, both use the right pattern, the cache stays within
capacity and ends up holding the key with the right value -/
theorem lru_match_correct_full_cache :
    (let c := Cfg.init [(1, 10), (2, 20)] [({} : LLoc), {}] [matchCall 2 5 50, matchCall 2 5 50]
     c.forallRuns (fun r =>
        r.done && r.locs.all (fun l => !l.raised && l.val == some 50) &&
        decide (r.sh.length ≤ 2) && (lookup 5 r.sh == some 50)) c.size) = true := by
  decide +kernel

open Fs.Conc.Lru in
/-- limit of the cache itself: with capacity 1 two concurrent stores can both decide to evict and
the second `popitem` finds the dict empty — KeyError escapes `__setitem__`.  Not reachable with
the library's capacity 1000 by fewer than 1000 threads (documented, not a finding). -/
theorem lru_setitem_capacity_one_counterexample :
    ((Cfg.init [(1, 10)] [({} : LLoc), {}] [setitem 1 5 50, setitem 1 6 60]).exec [0, 1, 0, 1, 0, 1]).any
      (fun c => c.locs.map (·.raised) == [false, true]) = true := by decide +kernel

end Fs.C08
