/-
  RegexRoundTrip — parsing the regex SOURCE TEXT the translators emit yields exactly the AST the hand
  matchers use.  This closes the one hypothesis the translator tie of `fs/wildcard.py` / `fs/glob.py` still
  carried (`<parse-eq>`, until now only validated by the C14 correspondence):

      fs/wildcard.py  --translator-->  WildGen._translate  =  Wild.translateText      (WildGenEq.translate_eq)
                                       Regex.parse of that text  =  Wild.compile (AST)  (wildcard_text_parses, here)
                                       Wild.compile / Wild.wmatch  --->  the matcher theorems of C14

  and the same for `glob._translate_glob` (`glob_text_parses`).  Both hold for EVERY pattern and both case modes,
  error cases included (a reversed range is `re.error` on both routes; nothing else can fail).  What remains
  external is only that `Regex.parse` / `Regex.matches` state Python's `re` for the generated subset (validated by
  C14 (ii) on every run).  Nothing here mentions generated code, so these theorems do not break when the
  source changes.

  Route (helpers in `Lemmas/RegexParseLemmas.lean`, `RegexParseItems.lean`, `RegexParseGlob.lean`): a
  printer-directed induction.  `parseSet_raw`: `parseSetLoop` on the text of a bracket body reads back
  `Wild.rawItems` (ranges, the literal `]` in first position, the doubled backslash, the escaped leading `^`,
  a trailing `-`); `classParse_text`: a whole `[…]` / `[^…]`; one lemma per emitted piece (`pw_*`, `pg_*`:
  `re.escape`d literal, `.`, `[^/]*`, `[^/]`, `\[`, `(?!/)`, `/?`, `.*`, `(?:/[^/]+)*`), each self-delimiting as
  long as the next character is not a quantifier (`NoQ`); the fuel of `parseItems` is accounted for exactly (one
  unit per item, and an item's text is at least one character, so `text.length + 1` suffices); then folds over
  the pattern (`wild_parse_go`, `glob_parse_go`), over the pieces of `component.split("**")` (`piece_join`), over
  the components (`piece_comps`).
-/
import FsProofs.Lemmas.RegexParseGlob

namespace Fs.RegexRoundTrip
open Fs Fs.Regex Fs.RegexParseLemmas Fs.WildGenLemmas

/-- **wildcard**: `re.compile("(?ms)" + _translate(pattern) + "\\Z", flags)`, as the model of Python's parser
reads it, is the compiled pattern of the hand model — for every pattern, both case modes, errors included. -/
theorem wildcard_text_parses (pat : Str) (cs : Bool) :
    Regex.parse (Wild.regexText pat cs) (!cs) = Wild.compile pat cs :=
  wild_parse_text pat cs

/-- **glob**: parsing the text of `_translate_glob(pattern)` gives the hand model's compiled pattern (same
`levels`, `recursive`, AST) or the same exception — for every pattern and both case modes. -/
theorem glob_text_parses (pat : Str) (cs : Bool) :
    Glob.translateGlobViaText pat cs = Glob.translateGlob pat cs :=
  glob_parse_text pat cs

/-- matching through the text is matching with the AST -/
theorem wmatchViaText_eq (p n : Str) (cs : Bool) : wmatchViaText p n cs = Wild.wmatch p n cs := by
  simp [wmatchViaText, Wild.wmatch, wildcard_text_parses]

theorem matchAnyViaText_eq (ps : List Str) (n : Str) (cs : Bool) :
    matchAnyViaText ps n cs = Wild.matchAny ps n cs := by
  have e : (fun p => wmatchViaText p n cs) = (fun p => Wild.wmatch p n cs) := by
    funext p; exact wmatchViaText_eq p n cs
  simp only [matchAnyViaText, Wild.matchAny, e]

/-- the text of a single bracket expression: the parser gives back the hand model's atom (the core of the
round trip; every string a `scanClass` can return) -/
theorem class_text_parses (stuff rest : Str) (h : StuffOk stuff) :
    classParse ((Wild.classText ['^'] stuff).tail ++ rest) =
      (match Wild.classAtom stuff with
       | .ok a => .ok (a, rest)
       | .err e => .err e) := by
  rw [classText_eq]
  have := classParse_text stuff rest h
  simp only [List.tail_cons, List.append_assoc] at this ⊢
  cases hc : Wild.classAtom stuff with
  | ok a => rw [hc] at this; exact this
  | err e => rw [hc] at this; exact this

/-! non-vacuity: the two routes on concrete patterns (including an error) -/
example : Regex.parse (Wild.regexText "a[!b-d]*.p?".toList true) false = Wild.compile "a[!b-d]*.p?".toList true := by decide
example : Regex.parse (Wild.regexText "[b-a]".toList true) false = .err .reError ∧
    Wild.compile "[b-a]".toList true = .err .reError := by decide

end Fs.RegexRoundTrip
