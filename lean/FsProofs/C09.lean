/-
  C09 — parallel bulk copy equals sequential copy and never hides a failure.

  Property theorems only (helpers: FsProofs/Lemmas/Bulk*.lean).  The model is the labelled
  transition system `FsModel.Bulk` (fs/_bulk.py `Copier`, `_Worker.run`, `_CopyTask.__call__`,
  fs/copy.py `copy_file_internal` for the inline path).  Every theorem quantifies over
    * every configuration `c` : any number of workers `c.n` (0 = inline), any task list, any fault
      oracle `c.faults` (which open / read / write / close / setinfo calls raise), any chunk size,
      preserve_time on/off, both `with` orders of the inline path, any initial destination;
    * every schedule: `Reach c s` / `Exec c t s` is the closure of the initial state under every
      enabled transition of every thread.
  "At exit" is `s.prod = .finished o` (`Copier.__exit__` has returned (`o = .ok`) or raised).
-/
import FsModel.Bulk
import FsProofs.Lemmas.BulkFinal
import FsProofs.Lemmas.BulkProgress
import FsProofs.Lemmas.BulkSeq

namespace Fs.C09
open Fs Fs.Bulk Fs.BulkLemmas

/-! ## task conservation -/

/-- tasks = pending ⊎ queued ⊎ inflight ⊎ done ⊎ dropped, at every moment of every run
    (`dropped` = the tasks the producer never handed over because its loop raised) -/
theorem bulk_task_conservation {c : Cfg} {s : St} (h : Reach c s) :
    (s.pending ++ s.queued ++ s.inflight ++ s.done ++ s.dropped).Perm (List.range c.tasks.length) :=
  List.perm_iff_count.mpr (inv_reach h).cons

/-- hence no task is executed (or queued, or held) twice -/
theorem bulk_task_at_most_once {c : Cfg} {s : St} (h : Reach c s) :
    (s.pending ++ s.queued ++ s.inflight ++ s.done ++ s.dropped).Nodup :=
  (bulk_task_conservation h).nodup_iff.mpr List.nodup_range

/-- the call comes back only after every worker thread has returned from `run`; nothing is
    pending, queued or in flight any more, and the queue itself is empty -/
theorem returns_after_all_workers {c : Cfg} {s : St} {o : Outcome} (h : Reach c s)
    (hf : s.prod = .finished o) :
    s.allExited ∧ s.pending = [] ∧ s.queued = [] ∧ s.inflight = [] ∧ s.queue = [] ∧
      (s.done ++ s.dropped).Perm (List.range c.tasks.length) := by
  have hI := inv_reach h
  obtain ⟨hq, hex, hcnt⟩ := done_dropped_of_joined hI (by simp [hf, joined]) (by simp [hf, sentPut])
    (by simp [hf, Prod.pending]) (by simp [hf, Prod.inflight])
  refine ⟨hex, by simp [St.pending, hf, Prod.pending], by simp [St.queued, hq], ?_, hq,
    List.perm_iff_count.mpr hcnt⟩
  simp [St.inflight, hf, Prod.inflight, flatMap_nil_of_allExited W.tasks rfl _ hex]

/-- a normal return means every single task was transferred -/
theorem bulk_ok_all_done {c : Cfg} {s : St} (h : Reach c s) (hf : s.prod = .finished .ok) :
    s.done.Perm (List.range c.tasks.length) := by
  have hI := inv_reach h
  have hd : s.dropped = [] := by
    by_cases hd : s.dropped = []
    · exact hd
    · have := hI.drop hd; simp [hf, raised] at this
  have := (returns_after_all_workers h hf).2.2.2.2.2
  simpa [hd] using this

/-- the bounded queue never holds more than `num_workers` items -/
theorem bulk_queue_bounded {c : Cfg} {s : St} (h : Reach c s) : s.queue.length ≤ c.n :=
  (inv_reach h).invA.qlen

/-- no deadlock: in every reachable state that is not final, some thread can move (a producer
    blocked on a full queue always has a live worker; a worker blocked on an empty queue always
    gets its sentinel; `queue.join()` never blocks) -/
theorem bulk_no_deadlock {c : Cfg} {s : St} (h : Reach c s) :
    s.prod.isFinished = true ∨ ∃ l s' e, stepEv c s l = some (s', e) :=
  progress (inv_reach h)

/-! ## parallel = sequential -/

/-- copies to distinct destination paths commute (observationally) -/
theorem copyOne_comm (d : Store) (a b : Task) (h : a.dst ≠ b.dst) (p : Str) :
    (copyOne (copyOne d a) b).get p = (copyOne (copyOne d b) a).get p :=
  copyOne_comm' d a b h p

/-- the sequential result does not depend on the order of the tasks -/
theorem sequential_order_irrelevant {ts ts' : List Task} (hp : ts.Perm ts')
    (hn : (ts.map (·.dst)).Nodup) (d : Store) (p : Str) :
    (ts.foldl copyOne d).get p = (ts'.foldl copyOne d).get p :=
  foldl_copyOne_perm hp hn d p

/-- Whenever no failure fired during a run — whatever the fault oracle, the number of workers and
    the schedule — the call returns normally and the destination at exit is the sequential one. -/
theorem bulk_equals_sequential_of_no_failure {c : Cfg} {s : St} {o : Outcome}
    (hn : (c.tasks.map (·.dst)).Nodup) (hch : 0 < c.chunk)
    (h : Reach c s) (hf : s.prod = .finished o) (h0 : s.nfail = 0) :
    o = .ok ∧ ∀ p, s.dest.get p = (c.tasks.foldl copyOne c.d0).get p := by
  have hwf : WfCfg c := ⟨hn, hch⟩
  have hI := inv_reach h
  obtain ⟨hD1, hD2⟩ := dest_reach hwf h h0
  constructor
  · have hv := hI.vis
    unfold Vis visN at hv
    rw [h0, hf] at hv
    cases o with
    | ok => rfl
    | bulk => simp [prodExc] at hv
    | other => simp [prodExc] at hv
  · intro p
    by_cases hp : ∃ i, i < c.tasks.length ∧ c.dstp i = p
    · obtain ⟨i, hi, rfl⟩ := hp
      have hmem := mem_done_of_joined hI (by simp [hf, joined]) (by simp [hf, sentPut])
        (by simp [hf, Prod.pending]) (by simp [hf, Prod.inflight]) h0 hi
      have h1 := hD1 (i, some (c.data i)) (by
        simp only [claims, List.mem_append]
        exact Or.inr (List.mem_map.mpr ⟨i, hmem, rfl⟩))
      have h2 := foldl_copyOne_task c.tasks c.d0 c.tasks[i] hn (List.getElem_mem hi)
      simp only [Cfg.dstp, Cfg.data, List.getElem?_eq_getElem hi] at h1 ⊢
      rw [h1, h2]
    · have hne : ∀ i, i < c.tasks.length → c.dstp i ≠ p := fun i hi heq => hp ⟨i, hi, heq⟩
      rw [hD2 p hne, foldl_copyOne_other]
      intro t ht heq
      obtain ⟨i, hi, rfl⟩ := List.mem_iff_getElem.mp ht
      exact hne i hi (by simp [Cfg.dstp, List.getElem?_eq_getElem hi, heq])

/-- no failure injected → destination at exit = `foldl copyOne d0 tasks`, for every number of
    workers and every schedule (hypothesis: destination paths pairwise distinct) -/
theorem bulk_equals_sequential {c : Cfg} {s : St} {o : Outcome}
    (hn : (c.tasks.map (·.dst)).Nodup) (hch : 0 < c.chunk) (hnf : c.faults = [])
    (h : Reach c s) (hf : s.prod = .finished o) :
    o = .ok ∧ ∀ p, s.dest.get p = (c.tasks.foldl copyOne c.d0).get p :=
  bulk_equals_sequential_of_no_failure hn hch h hf (nofault_reach ⟨hn, hch⟩ hnf h)

/-- in particular two un-faulted runs over the same tasks agree, whatever their worker counts,
    schedules, chunk sizes, `with` orders and preserve_time flags -/
theorem bulk_independent_of_workers_and_schedule {c₁ c₂ : Cfg} {s₁ s₂ : St} {o₁ o₂ : Outcome}
    (ht : c₁.tasks = c₂.tasks) (hd : c₁.d0 = c₂.d0)
    (hn : (c₁.tasks.map (·.dst)).Nodup) (hch₁ : 0 < c₁.chunk) (hch₂ : 0 < c₂.chunk)
    (hnf₁ : c₁.faults = []) (hnf₂ : c₂.faults = [])
    (h₁ : Reach c₁ s₁) (h₂ : Reach c₂ s₂) (hf₁ : s₁.prod = .finished o₁) (hf₂ : s₂.prod = .finished o₂) :
    ∀ p, s₁.dest.get p = s₂.dest.get p := by
  intro p
  rw [(bulk_equals_sequential hn hch₁ hnf₁ h₁ hf₁).2 p,
    (bulk_equals_sequential (ht ▸ hn) hch₂ hnf₂ h₂ hf₂).2 p, ht, hd]

/-! ## failures are never hidden -/

/-- a transfer step failed (an open / read / write / close / setinfo event with `ok = false`
    occurs in the trace) → the call raises, it never returns normally -/
theorem bulk_error_never_hidden {c : Cfg} {t : Trace} {s : St} {o : Outcome} (h : Exec c t s)
    (hf : s.prod = .finished o) (hfail : ∃ le ∈ t, le.2.failed = true) : o ≠ .ok := by
  have hI := inv_reach (reach_of_exec h)
  have hn : 0 < s.nfail := by
    rw [nfail_exec h]
    obtain ⟨le, hm, hfl⟩ := hfail
    exact List.length_pos_iff.mpr (List.ne_nil_of_mem (List.mem_filter.mpr ⟨hm, hfl⟩))
  intro ho
  subst ho
  have hv := hI.vis
  unfold Vis visN nExc at hv
  have hex := (returns_after_all_workers (reach_of_exec h) hf).1
  rw [hf, hI.finE hf, flatMap_nil_of_allExited excMark rfl _ hex] at hv
  simp [prodExc] at hv
  omega

/-- conversely the call raises only when some step failed -/
theorem bulk_raises_only_on_failure {c : Cfg} {t : Trace} {s : St} {o : Outcome} (h : Exec c t s)
    (hf : s.prod = .finished o) (ho : o ≠ .ok) : ∃ le ∈ t, le.2.failed = true := by
  have hI := inv_reach (reach_of_exec h)
  have hv := hI.vis
  unfold Vis visN at hv
  rw [hf] at hv
  have hpe : prodExc (.finished o) = true := by cases o <;> simp_all [prodExc]
  rw [hpe] at hv
  have hn : 0 < s.nfail := hv.mpr (by simp; omega)
  rw [nfail_exec h] at hn
  obtain ⟨le, hm⟩ := List.exists_mem_of_length_pos hn
  exact ⟨le, (List.mem_filter.mp hm).1, (List.mem_filter.mp hm).2⟩

/-- the exception is `BulkCopyFailed` only if a worker reported an error, and a normal return
    means the error list is empty -/
theorem bulk_exit_rule {c : Cfg} {s : St} (h : Reach c s) :
    (s.prod = .finished .ok → s.errors = []) ∧ (s.prod = .finished .bulk → 0 < s.nfail) := by
  have hI := inv_reach h
  refine ⟨hI.finE, fun hf => ?_⟩
  have hv := hI.vis
  unfold Vis visN at hv
  rw [hf] at hv
  exact hv.mpr (by simp [prodExc]; omega)

/-! ## every handle is closed -/

/-- at exit every file object opened by the call has been closed — even when reads, writes or
    closes fail, in workers or in the producer -/
theorem bulk_all_closed {c : Cfg} {s : St} {o : Outcome} (h : Reach c s) (hf : s.prod = .finished o) :
    s.opened = [] :=
  opened_nil_of_joined (inv_reach h) (by simp [hf, joined]) (by simp [hf, sentPut])
    (by simp [hf, prodHandles])

/-- at every moment each open handle has exactly one owner (producer, queued task or worker) -/
theorem bulk_handles_owned {c : Cfg} {s : St} (h : Reach c s) : s.opened.Perm (held c s) :=
  List.perm_iff_count.mpr (inv_reach h).hand

/-! ## the thread-safe gate -/

/-- worker threads are used ⇔ workers were requested and both filesystems' meta say thread_safe
    (`is_thread_safe` + `num_workers=workers if _thread_safe else 0` in copy_dir_if and mirror) -/
theorem thread_safe_gate (workers : Nat) (src dst : Bool) :
    0 < effectiveWorkers workers src dst ↔ (0 < workers ∧ src = true ∧ dst = true) := by
  cases src <;> cases dst <;> simp [effectiveWorkers, isThreadSafe]

theorem thread_safe_gate_value (workers : Nat) (src dst : Bool) :
    effectiveWorkers workers src dst = if src && dst then workers else 0 := by
  cases src <;> cases dst <;> simp [effectiveWorkers, isThreadSafe]

/-- `is_thread_safe(*filesystems)` is `all(...)` -/
theorem isThreadSafe_iff (metas : List Bool) : isThreadSafe metas = true ↔ ∀ m ∈ metas, m = true := by
  simp [isThreadSafe]

/-! ## the hypotheses are satisfiable; concrete runs -/

/-- two workers, three files (one empty), chunk 2 -/
def exCfg (n : Nat) (faults : List (Nat × FStep)) : Cfg :=
  { n := n
    tasks := [⟨['a'], ['x'], [1, 2, 3]⟩, ⟨['b'], ['y'], []⟩, ⟨['c'], ['z'], [4]⟩]
    faults := faults, chunk := 2, preserveTime := false, dstFirst := false, d0 := [(['k'], [9])] }

example : ((exCfg 2 []).tasks.map (·.dst)).Nodup := by decide
example : 0 < (exCfg 2 []).chunk := by decide

/-- a complete un-faulted run with 2 workers: returns, everything closed, destination as expected -/
example : (run (exCfg 2 []) [.p, .p, .p, .w 1, .w 1, .p]).1.prod = .finished .ok := by decide
example : (run (exCfg 2 []) [.p, .p, .p, .w 1]).1.opened = [] := by decide
example : (run (exCfg 2 []) []).1.dest.get ['x'] = some [1, 2, 3] := by decide
example : (run (exCfg 0 []) []).1.dest.get ['x'] = some [1, 2, 3] := by decide

/-- a write failing in a worker: `BulkCopyFailed`; an open failing in the producer: the injected
    error propagates; both with everything closed -/
example : (run (exCfg 2 [(0, .write 1)]) []).1.prod = .finished .bulk := by decide
example : (run (exCfg 2 [(0, .write 1)]) []).1.opened = [] := by decide
example : (run (exCfg 2 [(0, .write 1)]) []).1.dest.get ['x'] = some [1, 2] := by decide
example : (run (exCfg 2 [(1, .open .dst)]) [.p, .p, .p, .p, .p]).1.prod = .finished .other := by decide
example : (run (exCfg 0 [(2, .close .src)]) []).1.prod = .finished .other := by decide

/-- the traces produced by `run` are accepted -/
example : accepts (exCfg 2 [(0, .write 1)]) (run (exCfg 2 [(0, .write 1)]) [.w 0, .p, .w 1]).2 = true := by
  decide

end Fs.C09
