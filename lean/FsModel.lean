import FsModel.Basic
import FsModel.Path
import FsModel.PathSpec
import FsModel.Proto
import FsModel.PathDriver
