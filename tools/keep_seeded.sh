#!/bin/sh
# tools/keep_seeded.sh <PROP> <n> <mutdir> <worktree> "<needs>"  — confirm a seeded change and file it under seeded/<PROP>-mut<n>/
prop=$1; n=$2; d=$3; wt=$4; needs=$5; checks=${6:-$1}
out=$(tools/confirm_seeded.sh $d $wt 2>&1 | tail -1); echo "$prop mut$n: $out"
case "$out" in *"clean=0 mutated=1 new_test_failures=0"*) ;; *) echo "NOT CONFIRMED"; exit 1;; esac
res=$(tools/try_seeded.sh $d/patch.diff $checks 2>&1)
caught=$(echo "$res" | grep -c "^VIOLATION")
first=$(echo "$res" | grep -A1 "^VIOLATION" | sed -n 2p | cut -c1-300)
nf=$(echo "$res" | grep "^VIOLATION" | grep -c "no-failing-input-found")
dst=seeded/$prop-mut$n; mkdir -p $dst
cp $d/patch.diff $dst/patch.diff; cp $d/demo.py $dst/demo.py; [ -f $d/notes.md ] && cp $d/notes.md $dst/notes.md
python3 - "$prop" "$n" "$needs" "$caught" "$nf" "$first" "$(git -C /repo rev-parse --short HEAD)" "$checks" <<'PY'
import json,sys
prop,n,needs,caught,nf,first,head,checks=sys.argv[1:9]
json.dump({"property":prop,"breaks":"see notes.md (written by the seeding agent, which saw only the property text)",
 "needs_to_manifest":needs,
 "confirmed":{"repo_head":head,"demo_exit_clean_tree":0,"demo_exit_with_change":1,"new_test_failures_with_change":0,
   "commands":["tools/confirm_seeded.sh <dir> <scratch worktree>  (pytest -k 'not ftp' before/after; demo.py before/after)",
               "tools/try_seeded.sh patch.diff %s  (quick check against a scratch worktree, VERIF_REPO)"%prop]},
 "checks_run":checks.split(),"tier":__import__("os").environ.get("TIER","quick"),"detected_by_quick_check":int(caught)>0 and __import__("os").environ.get("TIER","quick")=="quick","detected_by_thorough_check":int(caught)>0 and __import__("os").environ.get("TIER","quick")=="thorough","violation_lines":int(caught),"no_failing_input_found_lines":int(nf),"first_violation":first},
 open("seeded/%s-mut%s/meta.json"%(prop,n),"w"),indent=1)
PY
echo "  caught=$caught nf=$nf :: $first"
