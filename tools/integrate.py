#!/usr/bin/env python3
"""tools/integrate.py <agent verif dir> — copy the files a package agent created (those that do not
exist in /verif) and register its Lean modules in Main.lean / FsModel.lean / FsProofs.lean."""
import os, re, shutil, sys
src = sys.argv[1].rstrip('/')
dst = '/verif'
skip = {'.git', '.lake', 'replays', '__pycache__', 'evidence', 'scratch', 'Generated'}
new = []
for root, dirs, files in os.walk(src):
    dirs[:] = [d for d in dirs if d not in skip]
    for f in files:
        rel = os.path.relpath(os.path.join(root, f), src)
        if f.endswith('.pyc'): continue
        if not os.path.exists(os.path.join(dst, rel)):
            os.makedirs(os.path.dirname(os.path.join(dst, rel)), exist_ok=True)
            shutil.copy2(os.path.join(root, f), os.path.join(dst, rel))
            new.append(rel)
print('copied:', *new, sep='\n  ')
# register lean modules
def reg(path, line):
    s = open(path).read()
    if line not in s:
        s = s.rstrip('\n') + '\n' + line + '\n'
        open(path, 'w').write(s)
main = open(os.path.join(dst, 'lean/Main.lean')).read()
for rel in new:
    m = re.match(r'lean/FsModel/(\w+)\.lean$', rel)
    if m:
        reg(os.path.join(dst, 'lean/FsModel.lean'), 'import FsModel.%s' % m.group(1))
        if m.group(1).endswith('Driver'):
            imp = 'import FsModel.%s\n' % m.group(1)
            if imp not in main:
                main = main.replace('\nopen Fs\n', '\n' + imp.rstrip('\n') + '\nopen Fs\n', 1) if False else main
                # insert after the last import line
                lines = main.split('\n')
                idx = max(i for i, l in enumerate(lines) if l.startswith('import '))
                lines.insert(idx + 1, imp.rstrip('\n'))
                main = '\n'.join(lines)
            # handler name: read namespace from the agent's Main.lean
            am = open(os.path.join(src, 'lean/Main.lean')).read()
            hm = re.search(r'\[([^\]]*)\]', am[am.index('def handlers'):])
            for h in [x.strip() for x in hm.group(1).split(',')]:
                if h and h not in main:
                    main = re.sub(r'(def handlers[^\n]*\n\s*\[)([^\]]*)\]', lambda mm: mm.group(1) + mm.group(2).rstrip() + ', ' + h + ' ]', main, count=1)
    m = re.match(r'lean/FsProofs/(C\d+)\.lean$', rel)
    if m:
        reg(os.path.join(dst, 'lean/FsProofs.lean'), 'import FsProofs.%s' % m.group(1))
open(os.path.join(dst, 'lean/Main.lean'), 'w').write(main)
print(open(os.path.join(dst, 'lean/Main.lean')).read()[:900])
