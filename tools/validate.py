#!/usr/bin/env python3
"""Validate MANIFEST.json and evidence/*.json against the schemas (run with python3-vt)."""
import glob, json, sys
import jsonschema
ok = True
jsonschema.validate(json.load(open('MANIFEST.json')), json.load(open('/root/.vp/MANIFEST.schema.json')))
print('MANIFEST ok')
es = json.load(open('/root/.vp/EVIDENCE.schema.json'))
for f in sorted(glob.glob('evidence/*.json')):
    try:
        jsonschema.validate(json.load(open(f)), es); print(f, 'ok')
    except Exception as e:
        ok = False; print(f, 'INVALID', str(e)[:300])
sys.exit(0 if ok else 1)
