#!/usr/bin/env python3
"""Assemble MANIFEST.json from manifest.d/Cxx.json fragments (one per claimed property)
and manifest.d/_base.json; every property of properties.jsonl without a fragment goes to
not_applicable with the reason recorded in manifest.d/_not_applicable.json."""
import glob
import json
import os

here = os.path.dirname(os.path.dirname(os.path.abspath(__file__)))
base = json.load(open(os.path.join(here, "manifest.d", "_base.json")))
na = json.load(open(os.path.join(here, "manifest.d", "_not_applicable.json")))
props = [json.loads(l)["id"] for l in open(os.path.join(here, "properties.jsonl")) if l.strip()]
checks = []
claimed = set()
for f in sorted(glob.glob(os.path.join(here, "manifest.d", "C*.json"))):
    c = json.load(open(f))
    pid = c["property_id"]
    c.setdefault("quick_cmd", "./check %s --tier quick" % pid)
    c.setdefault("thorough_cmd", "./check %s --tier thorough" % pid)
    c.setdefault("evidence_file", "evidence/%s.json" % pid)
    c.setdefault("replay_cmd_template", "./check %s --replay {path}" % pid)
    c.setdefault("engine", "lean-model+correspondence")
    checks.append(c)
    claimed.add(pid)
base["checks"] = checks
base["not_applicable"] = [
    {"property_id": p, "reason": na.get(p, "check not built yet (see DESIGN.md section 6 for the plan)")}
    for p in props
    if p not in claimed
]
json.dump(base, open(os.path.join(here, "MANIFEST.json"), "w"), indent=1)
print("claimed:", sorted(claimed))
