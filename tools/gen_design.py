#!/usr/bin/env python3
"""Assemble DESIGN.md from design.d/_head.md, design.d/Cxx.md, generated tables and design.d/_tail.md."""
import glob, json, os, re
here = os.path.dirname(os.path.dirname(os.path.abspath(__file__)))
def rd(p): return open(os.path.join(here, p), encoding='utf-8').read()
out = [rd('design.d/_head.md').rstrip('\n'), '']
EXTRA = {'C01': ['WRAP', 'OS', 'HANDLES', 'MULTI', 'MOUNT', 'FTP', 'FTPMODEL'], 'C02': ['TEXT'], 'C05': ['BASEWALK'], 'C10': ['INFO'], 'C12': ['PATHGEN'], 'C14': ['GEN2']}
props = [json.loads(l) for l in open(os.path.join(here, 'properties.jsonl')) if l.strip()]
for p in props:
    f = 'design.d/%s.md' % p['id']
    if os.path.exists(os.path.join(here, f)):
        body = rd(f).strip('\n')
        # demote headings so that each fragment sits under "### Cxx"
        lines = body.split('\n')
        if not lines[0].startswith('### '):
            first = lines[0].lstrip('# ').strip()
            if not first.startswith(p['id']):
                first = '%s — %s' % (p['id'], p['title'])
                lines = ['### ' + first, ''] + [('#' + l if re.match(r'^#{1,3} ', l) else l) for l in lines]
            else:
                lines = ['### ' + first] + [('##' + l if re.match(r'^#{1,2} ', l) else l) for l in lines[1:]]
        out += ['\n'.join(lines), '']
        for extra in EXTRA.get(p['id'], []):
            ef = 'design.d/%s.md' % extra
            if os.path.exists(os.path.join(here, ef)):
                eb = rd(ef).strip('\n').split('\n')
                eb = [('##' + l if re.match(r'^#{1,2} ', l) else ('#' + l if re.match(r'^### ', l) else l)) for l in eb]
                out += ['\n'.join(eb), '']
    else:
        out += ['### %s — %s' % (p['id'], p['title']), '', '*Not built yet; listed under `not_applicable` in MANIFEST.json until its package is integrated.*', '']
# section 7: findings
k = json.load(open(os.path.join(here, 'known_findings.json')))
out += ['-' * 99, '', '## 7. Defects found on the pinned tree and their disposition', '',
        'Every row was reproduced against the real code before it was recorded.  Fixed rows are one minimal',
        'unguarded `fix:` commit each in `/repo` (the pinned suite still passes; a fixed entry suppresses nothing:',
        'the check reports the violation again if it returns).  Open rows are keyed by signature in',
        '`known_findings.json`; a check prints `KNOWN-FINDING:` for exactly that class and reports any other',
        'violation of the same property normally.', '',
        '### 7.1 Open findings (recorded, not repaired)', '', '| property | signature | what fails | why not repaired |', '|---|---|---|---|']
why = {
 'movedir-dst-ancestor-of-src-name-clash': 'base-class move_dir = copy_dir then removetree(src); a correct repair needs a staged move (rename source aside first) on every backend — larger than a minimal patch',
 'aliased-views-copy-into-itself-runaway': 'the library cannot in general know that two FS objects alias one storage',
 'aliased-views-same-file-truncated': 'needs alias detection across wrapper objects (SubFS chains, twin OSFS); not a small safe patch',
 'archive-close-after-failed-write': 'what a failed finalisation should leave behind (keep content for a retry / mark closed and drop it) is a design decision for the maintainers',
 'ftpfile-': 'FTPFile is a stream adaptor; seven local classes have a patch (findings/C16-ftpfs-ftpfile.patch), the others need a design decision (separate control connections, waiting for 226, size bookkeeping) — findings/C16-ftpfs-ftpfile.md',
 'ftpfs-': 'small patch proposed in findings/ (same failure set of tests/test_ftpfs.py before and after); not landed by the package that found it',
 'localtime-read-as-utc': 'changes stored timestamps of every archive written outside UTC; behaviour change for the maintainers to judge (patch kept in findings/)',
}
for e in k['open']:
    w = next((v for kk, v in why.items() if kk in e['signature']), '')
    out.append('| %s | `%s` | %s | %s |' % (e['property'], e['signature'], e['what'].replace('|', '\\|'), w))
out += ['', '### 7.2 Fixed (one `fix:` commit each)', '', '| property | commit | what failed |', '|---|---|---|']
for s in k['fixed']:
    m = re.match(r'fixed: property=(\S+) (\S+) (.*)', s)
    out.append('| %s | `%s` | %s |' % (m.group(1), m.group(2), m.group(3).replace('|', '\\|')))
out += ['', rd('design.d/_tail.md').rstrip('\n'), '']
# section 9: seeded changes
out += ['-' * 99, '', '## 9. Seeded changes: which check catches which', '',
        'Fresh sub-agents were given only the text of one property and a scratch worktree of `/repo` and asked',
        'for a change that breaks the property, still passes the test suite, and needs something specific to',
        'manifest.  Each change kept here was confirmed (`tools/confirm_seeded.sh`: demo passes on the clean',
        'tree, fails with the change, no new test failures) and then run against the quick check',
        '(`tools/try_seeded.sh`).  Checks were strengthened where they missed one (noted in the last column).', '',
        '| id | property | what it needs to manifest | caught by quick check | first violation reported | note |', '|---|---|---|---|---|---|']
notes = {}
np = os.path.join(here, 'design.d', '_seeded_notes.json')
if os.path.exists(np): notes = json.load(open(np))
for d in sorted(glob.glob(os.path.join(here, 'seeded', '*', 'meta.json'))):
    m = json.load(open(d)); sid = os.path.basename(os.path.dirname(d))
    caught = ('yes (%d replay%s)' % (m['violation_lines'] - m['no_failing_input_found_lines'], '' if m['violation_lines'] - m['no_failing_input_found_lines'] == 1 else 's')
              if m['detected_by_quick_check'] and m['violation_lines'] > m['no_failing_input_found_lines']
              else ('yes, no-failing-input-found' if m['detected_by_quick_check'] else
                    ('thorough tier only (%d replay%s)' % (m['violation_lines'] - m['no_failing_input_found_lines'], '' if m['violation_lines'] - m['no_failing_input_found_lines'] == 1 else 's') if m.get('detected_by_thorough_check') else '**no**')))
    out.append('| %s | %s | %s | %s | %s | %s |' % (sid, m['property'], m['needs_to_manifest'].replace('|', '\\|'), caught,
               (m.get('first_violation') or '').strip().replace('|', '\\|').replace('\n', ' ')[:160], notes.get(sid, '')))
out.append('')
open(os.path.join(here, 'DESIGN.md'), 'w', encoding='utf-8').write('\n'.join(out))
print('DESIGN.md:', sum(len(x.split('\n')) for x in out), 'lines')
