#!/bin/sh
# tools/confirm_seeded.sh <mutdir with patch.diff+demo.py> <scratch worktree> — confirm a seeded change:
# demo passes on the clean tree, fails with the change; the test suite shows no new failures.
d="$1"; wt="$2"
cd "$wt" || exit 2
git checkout -q -- . 
git -C "$wt" merge -q --ff-only $(git -C /repo rev-parse HEAD) 2>/dev/null || git -C "$wt" checkout -q --detach $(git -C /repo rev-parse HEAD)
PYTHONPATH="$wt" /venv/bin/python "$d/demo.py" >/dev/null 2>&1; clean=$?
if [ ! -f /tmp/seeded-baseline-fail.txt ] || [ "$(cat /tmp/seeded-baseline-head 2>/dev/null)" != "$(git rev-parse HEAD)" ]; then
  PYTHONPATH="$wt" /venv/bin/python -m pytest -q -p no:cacheprovider -k "not ftp" -x --co -q tests >/dev/null 2>&1
  PYTHONPATH="$wt" /venv/bin/python -m pytest -q -p no:cacheprovider -k "not ftp" tests 2>&1 | grep "^FAILED\|^ERROR" | sed 's/ - .*//' | sort > /tmp/seeded-baseline-fail.txt
  git rev-parse HEAD > /tmp/seeded-baseline-head
fi
git apply "$d/patch.diff" || { echo "patch does not apply to current HEAD"; exit 2; }
PYTHONPATH="$wt" /venv/bin/python "$d/demo.py" >/dev/null 2>&1; mutated=$?
PYTHONPATH="$wt" /venv/bin/python -m pytest -q -p no:cacheprovider -k "not ftp" tests 2>&1 | grep "^FAILED\|^ERROR" | sed 's/ - .*//' | sort > /tmp/seeded-mut-fail.txt
new=$(comm -13 /tmp/seeded-baseline-fail.txt /tmp/seeded-mut-fail.txt | wc -l)
git checkout -q -- .
echo "demo clean=$clean mutated=$mutated new_test_failures=$new"
[ "$clean" = 0 ] && [ "$mutated" != 0 ] && [ "$new" = 0 ]
