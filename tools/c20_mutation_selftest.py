import os, shutil, subprocess, sys
MUTS = [
 ("R1 defect re-introduced: `if not credentials`", "fs/opener/parse.py", "    if credentials is None:\n", "    if not credentials:\n"),
 ("R2 defect re-introduced: values unquoted twice", "fs/opener/parse.py", "params = {k: v[0] for", "params = {k: unquote(v[0]) for"),
 ("R3 defect re-introduced: datetime() outside try", "fs/_ftp_parse.py", "    try:\n        dt = datetime(year, month, day, hour, minutes, tzinfo=timezone.utc)\n    except ValueError:\n        # e.g. \"Feb 29 12:00\" when the current year is not a leap year\n        return None\n", "    dt = datetime(year, month, day, hour, minutes, tzinfo=timezone.utc)\n"),
 ("R4 defect re-introduced: parse_line does not catch ValueError", "fs/_ftp_parse.py", "            except ValueError:\n                # a field the decoder", "            except KeyError:\n                # a field the decoder"),
 ("R5 defect re-introduced: int(size) unguarded", "fs/ftpfs.py", "                except ValueError:\n                    # isdigit()", "                except KeyError:\n                    # isdigit()"),
 ("R6 defect re-introduced: timegm outside try", "fs/ftpfs.py", "            epoch_time = calendar.timegm(\n                (tm_year, tm_month, tm_day, tm_hour, tm_min, tm_sec)\n            )\n        except ValueError:\n            return None\n", "        except ValueError:\n            return None\n        epoch_time = calendar.timegm(\n            (tm_year, tm_month, tm_day, tm_hour, tm_min, tm_sec)\n        )\n"),
 ("M1 regex: credentials group greedy", "fs/opener/parse.py", "(?:(.*?)@(.*?))", "(?:(.*)@(.*?))"),
 ("M2 credentials rpartition(':')", "fs/opener/parse.py", 'credentials.partition(":")', 'credentials.rpartition(":")'),
 ("M3 parse_qs drops blank values", "fs/opener/parse.py", "keep_blank_values=True", "keep_blank_values=False"),
 ("M4 regex: sub-path group needs one char", "fs/opener/parse.py", "!(.*?)$", "!(.+?)$"),
 ("M5 registry: default protocol only when no ':'", "fs/opener/registry.py", 'if "://" not in fs_url:', 'if ":" not in fs_url:'),
 ("M6 RE_LINUX: sticky 'T' dropped", "fs/_ftp_parse.py", "[xtT-][\\.\\+]?", "[xt-][\\.\\+]?"),
 ("M7 _parse_time: 1900 test inverted", "fs/_ftp_parse.py", "_t.tm_year != 1900", "_t.tm_year > 1900"),
 ("M8 decode_linux: links are not dirs", "fs/_ftp_parse.py", 'is_dir = ty == "d" or is_link', 'is_dir = ty == "d"'),
 ("M9 decode_linux: link name not stripped", "fs/_ftp_parse.py", "        name = name.strip()\n", ""),
 ("M10 windows 12h format only", "fs/_ftp_parse.py", 'formats=["%d-%m-%y %I:%M%p", "%d-%m-%y %H:%M"]', 'formats=["%d-%m-%y %I:%M%p"]'),
 ("M11 parse: blank test without strip", "fs/_ftp_parse.py", "if not line.strip():", "if not line:"),
 ("M12 _parse_facts: keys not lower-cased", "fs/ftpfs.py", "facts[key.strip().lower()] = value.strip()", "facts[key.strip()] = value.strip()"),
 ("M13 _parse_mlsx: sizd preferred over size", "fs/ftpfs.py", 'facts.get("size", facts.get("sizd", "0"))', 'facts.get("sizd", facts.get("size", "0"))'),
 ("M14 _parse_ftp_time: seconds slice", "fs/ftpfs.py", "tm_sec = int(time_text[12:14])", "tm_sec = int(time_text[12:])"),
 ("M15 _parse_features: split on first space of stripped line", "fs/ftpfs.py", 'key, _, value = line[1:].partition(" ")', 'key, _, value = line.strip().partition(" ")'),
 ("M16 _has_drive_letter: any separator", "fs/_url_tools.py", '".:[/\\\\\\\\].*$"', '".:.*$"'),
 ("M17 RE_WINDOWSNT: name lazy", "fs/_ftp_parse.py", "(?P<name>.*)", "(?P<name>.*?)"),
 ("M19 _parse_mlsx: line.rstrip() (trailing blanks of the name lost)", "fs/ftpfs.py", 'line = line.rstrip("\\r\\n")', "line = line.rstrip()"),
 ("M20 _parse_facts: cut at the LAST space", "fs/ftpfs.py", 'facts_text, sep, pathname = line.partition(" ")', 'facts_text, sep, pathname = line.rpartition(" ")'),
 ("M21 _parse_facts: facts part need not end with ';'", "fs/ftpfs.py", 'if not sep or (facts_text and not facts_text.endswith(";")):', "if not sep:"),
 ("M22 _parse_facts: pathname stripped", "fs/ftpfs.py", 'name = basename(pathname.rstrip("/")) or None', 'name = basename(pathname.strip().rstrip("/")) or None'),
 ("M23 _parse_facts: name lower-cased", "fs/ftpfs.py", 'name = basename(pathname.rstrip("/")) or None', 'name = basename(pathname.rstrip("/")).lower() or None'),
 ("M24 _parse_mlsx: every leading space removed", "fs/ftpfs.py", 'cls._parse_facts(line[1:] if line.startswith(" ") else line)', 'cls._parse_facts(line.lstrip(" "))'),
 ("M25 defect re-introduced: line split at every ';' (ec30a14 reverted)", "fs/ftpfs.py", 'facts_text, sep, pathname = line.partition(" ")\n        if not sep or (facts_text and not facts_text.endswith(";")):\n            facts_text, pathname = "", line  # no facts at all\n        for fact in facts_text.split(";"):\n            key, sep, value = fact.partition("=")\n            if sep:\n                facts[key.strip().lower()] = value.strip()\n        if pathname not in ("", "/"):\n            name = basename(pathname.rstrip("/")) or None\n', 'for fact in line.strip().split(";"):\n            key, sep, value = fact.partition("=")\n            if sep:\n                facts[key.strip().lower()] = value.strip()\n            else:\n                name = basename(fact.rstrip("/").strip())\n'),
 ("M18 RE_LINUX: uid may start with '-'", "fs/_ftp_parse.py", "    ([A-Za-z0-9][A-Za-z0-9\\-\\.\\_\\@]*\\$?)\n    \\s+?\n    ([A-Za-z0-9]", "    ([A-Za-z0-9\\-][A-Za-z0-9\\-\\.\\_\\@]*\\$?)\n    \\s+?\n    ([A-Za-z0-9]"),
]
only = sys.argv[1:]
for name, path, old, new in MUTS:
    if only and not any(name.startswith(o + " ") for o in only):
        continue
    shutil.rmtree("/tmp/c20mut", ignore_errors=True)
    os.makedirs("/tmp/c20mut")
    shutil.copytree("/repo/fs", "/tmp/c20mut/fs")
    shutil.copytree("/repo/tests", "/tmp/c20mut/tests")
    p = "/tmp/c20mut/" + path
    s = open(p).read()
    if s.count(old) != 1:
        print("!!", name, "pattern count", s.count(old)); continue
    open(p, "w").write(s.replace(old, new))
    env = dict(os.environ, PYTHONDONTWRITEBYTECODE="1")
    t = subprocess.run(["/venv/bin/python", "-m", "pytest", "-q", "-x", "-p", "no:cacheprovider", "tests/test_opener.py", "tests/test_ftp_parse.py", "tests/test_url_tools.py"],
                       cwd="/tmp/c20mut", env=env, stdout=subprocess.PIPE, stderr=subprocess.STDOUT, text=True)
    tests = t.stdout.strip().split("\n")[-1]
    env["VERIF_REPO"] = "/tmp/c20mut"
    c = subprocess.run(["./check", "C20", "--tier", "quick", "--no-build"], cwd=os.path.dirname(os.path.dirname(os.path.abspath(__file__))), env=env, stdout=subprocess.PIPE, stderr=subprocess.STDOUT, text=True)
    viol = [l for l in c.stdout.split("\n") if l.startswith("VIOLATION")]
    first = ""
    for i, l in enumerate(c.stdout.split("\n")):
        if l.startswith("VIOLATION"):
            first = c.stdout.split("\n")[i + 1][:170]; break
    print("%-55s tests: %-28s check rc=%d correspondence=%d failing-input=%d" % (name, tests[:28], c.returncode, sum("no-failing-input-found" in v for v in viol), sum("no-failing-input-found" not in v for v in viol)))
    if first: print("      ", first)
shutil.rmtree("/tmp/c20mut", ignore_errors=True)
