#!/bin/sh
# apply a seeded change to /repo itself, run the quick checks (with build+audit), undo it straight afterwards
patch="$1"; shift
cd /verif
if ! git -C /repo diff --quiet; then echo "/repo has uncommitted changes; refusing"; exit 2; fi
git -C /repo apply "$patch" || { echo "patch does not apply"; exit 2; }
for p in "$@"; do
  echo "=== $p with $patch"
  ./check "$p" --tier quick 2>&1 | grep -v "^KNOWN-FINDING" | grep -A1 "^VIOLATION\|^$p \|INFRA" | cut -c1-400 | head -12
done
git -C /repo checkout -- .
git -C /repo status --short | head -3
