#!/bin/sh
# tools/try_seeded.sh <patch.diff> <PROP> [more PROPs…]  — apply a seeded change to /repo, run the quick
# checks, undo the change straight afterwards.  Never commits anything in /repo.
patch="$1"; shift
cd /verif
if ! git -C /repo diff --quiet; then echo "/repo has uncommitted changes; refusing"; exit 2; fi
git -C /repo apply "$patch" || { echo "patch does not apply"; exit 2; }
for p in "$@"; do
  echo "=== $p with $(basename $(dirname $patch))"
  ./check "$p" --tier quick --no-build 2>&1 | grep -v "^KNOWN-FINDING" | grep -A1 "^VIOLATION\|^$p \|INFRA\|Traceback" | cut -c1-400 | head -12
done
git -C /repo checkout -- .
git -C /repo status --short | head -3
