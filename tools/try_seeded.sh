#!/bin/sh
# tools/try_seeded.sh <patch.diff> <PROP> [more PROPs…] — run the quick checks against a scratch worktree of
# /repo with the seeded change applied (VERIF_REPO), so that /repo itself is never modified while other
# work reads it.  (tools/try_seeded_inplace.sh applies to /repo itself and undoes it straight afterwards.)
patch="$1"; shift
wt=/tmp/seeded-wt
cd /verif
git -C /repo worktree remove --force $wt 2>/dev/null
git -C /repo worktree add -q --detach $wt HEAD || exit 2
git -C $wt apply "$patch" || { echo "patch does not apply"; git -C /repo worktree remove --force $wt; exit 2; }
for p in "$@"; do
  echo "=== $p with $(basename $(dirname $patch)) ($(basename $(dirname $(dirname $patch))))"
  VERIF_REPO=$wt ./check "$p" --tier ${TIER:-quick} 2>&1 | grep -v "^KNOWN-FINDING" | grep -A1 "^VIOLATION\|^$p \|INFRA\|Traceback" | cut -c1-400 | head -12
done
git -C /repo worktree remove --force $wt
/venv/bin/python harness/extract/generate.py  # tables back to /repo
