#!/usr/bin/env python3
"""Run only the InfoModel part of C10 (props/_infomodel.check_info_model) without build/audit:
   [VERIF_REPO=/tmp/copy] /venv/bin/python tools/infomodel_only.py [quick|thorough] [seed]
Used for the mutation self-test of the package (design.d/INFO.md); writes replays like ./check."""
import os
import sys
import time

here = os.path.dirname(os.path.dirname(os.path.abspath(__file__)))
sys.path.insert(0, os.path.join(here, "harness"))
os.environ.setdefault("TZ", "UTC")
import vlib  # noqa: E402

vlib.repo_on_path()
from props import _infomodel  # noqa: E402

tier = sys.argv[1] if len(sys.argv) > 1 else "quick"
seed = int(sys.argv[2]) if len(sys.argv) > 2 else 0
rep = vlib.Report("C10", tier, seed)
t0 = time.time()
_infomodel.check_info_model(rep, vlib.Driver(), vlib.rng_for(seed, "c10-info"), tier)
rep.flush_deferred()
print("evaluations", rep.evaluations, "distinct", len(rep.distinct), "violations", len(rep.violations), "sizes", rep.extra.get("info_model"), "wall %.1f" % (time.time() - t0))
sys.exit(1 if rep.violations else 0)
