#!/bin/sh
# Runs the repository's pinned test suite (guard off) and compares with BASELINE.json stable_pass.
out=${1:-/tmp/verif-baseline.junit.xml}
cd /repo && /venv/bin/python -m pytest -ra -q -p no:cacheprovider --timeout=900 --continue-on-collection-errors --junitxml=$out >/tmp/verif-baseline.log 2>&1
python3 - "$out" <<'PY'
import json,sys,xml.etree.ElementTree as ET
b=json.load(open('/root/.vp/BASELINE.json'))
sp=b['stable_pass']
if isinstance(sp,str): sp=eval(sp)
sp=set(sp)
passed=set()
for tc in ET.parse(sys.argv[1]).getroot().iter('testcase'):
    bad=any(c.tag in('failure','error','skipped') for c in tc)
    if not bad:
        passed.add('%s::%s'%(tc.get('classname'),tc.get('name')))
missing=sorted(sp-passed)
print('stable_pass',len(sp),'passed_now',len(passed),'baseline tests not passing now:',len(missing))
for m in missing[:40]: print('  ',m)
sys.exit(1 if missing else 0)
PY
