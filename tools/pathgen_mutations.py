#!/usr/bin/env python3
"""Mutation self-test of the fs/path.py + fs/mode.py translator (design.d/PATHGEN.md, "Mutations tried").

For every mutation: copy $VERIF_REPO (default /repo) to a scratch directory, edit fs/path.py (or fs/mode.py)
there, run `./check C12 --tier quick` (or C16) with VERIF_REPO pointing at the copy, print the verdict lines,
delete the copy.  Afterwards the generated files are regenerated from the real repository.

    /venv/bin/python tools/pathgen_mutations.py [name ...]
"""
import os
import shutil
import subprocess
import sys
import time

VERIF = os.path.dirname(os.path.dirname(os.path.abspath(__file__)))
REPO = os.environ.get("VERIF_REPO", "/repo")
SCRATCH = "/tmp/verif-scratch/pathgen-mut-%d" % os.getpid()

# name -> (property, file, old text, new text, kind)
MUTATIONS = {
    # ---- semantic changes (must end in a VIOLATION with a replay)
    "isbase-raw-prefix": ("C12", "fs/path.py",
        "    _path1 = forcedir(abspath(path1))\n", "    _path1 = abspath(path1)\n", "semantic"),
    "normpath-keeps-empty": ("C12", "fs/path.py",
        '            if component in "..":  # True for \'..\', \'.\', and \'\'\n',
        '            if component in ["..", "."]:\n', "semantic"),
    "regex-without-double-slash": ("C12", "fs/path.py",
        '_requires_normalization = re.compile(r"(^|/)\\.\\.?($|/)|//", re.UNICODE).search',
        '_requires_normalization = re.compile(r"(^|/)\\.\\.?($|/)", re.UNICODE).search', "semantic"),
    "isparent-no-length-check": ("C12", "fs/path.py",
        "    if len(bits1) > len(bits2):\n        return False\n", "", "semantic"),
    "split-keeps-empty-head": ("C12", "fs/path.py",
        '    return (split[0] or "/", split[1])\n', "    return (split[0], split[1])\n", "semantic"),
    "mode-truncate-includes-a": ("C16", "fs/mode.py",
        '        return "w" in self or "x" in self\n', '        return "w" in self or "x" in self or "a" in self\n', "semantic"),
    # ---- harmless refactors (behaviour unchanged)
    "rename-local": ("C12", "fs/path.py", "components", "comps", "refactor"),
    "swap-if-else": ("C12", "fs/path.py",
        '    if not path.startswith("/"):\n        return "/" + path\n    return path\n',
        '    if path.startswith("/"):\n        return path\n    return "/" + path\n', "refactor"),
    "restructure-loop-body": ("C12", "fs/path.py",
        '            if component in "..":  # True for \'..\', \'.\', and \'\'\n'
        '                if component == "..":\n'
        '                    components.pop()\n'
        '            else:\n'
        '                components.append(component)\n',
        '            if component not in "..":\n'
        '                components.append(component)\n'
        '            elif component == "..":\n'
        '                components.pop()\n', "refactor"),
    "relativefrom-swap-branches": ("C12", "fs/path.py",
        "        if component_a != component_b:\n            break\n        common += 1\n",
        "        if component_a == component_b:\n            common += 1\n        else:\n            break\n", "refactor"),
    "isparent-continue": ("C12", "fs/path.py",
        "        if bit1 != bit2:\n            return False\n    return True\n",
        "        if bit1 == bit2:\n            continue\n        return False\n    return True\n", "refactor"),
    "temp-variable": ("C12", "fs/path.py",
        "    return dirname(normpath(path1)) == dirname(normpath(path2))\n",
        "    dir1 = dirname(normpath(path1))\n    dir2 = dirname(normpath(path2))\n    return dir1 == dir2\n", "refactor"),
    "while-instead-of-lstrip": ("C12", "fs/path.py",
        '    return path.lstrip("/")\n',
        '    while path.startswith("/"):\n        path = path[1:]\n    return path\n', "refactor"),
    "new-public-function": ("C12", "fs/path.py",
        "_WILD_CHARS = frozenset(",
        'def isroot(path):\n    # type: (Text) -> bool\n    return path == "/"\n\n\n_WILD_CHARS = frozenset(', "refactor"),
    # ---- fs/wildcard.py, fs/glob.py (harness/extract/puregen.py; design.d/GEN2.md)
    "wild-question-optional": ("C14", "fs/wildcard.py",
        '        elif c == "?":\n            res.append(".")\n', '        elif c == "?":\n            res.append(".?")\n', "semantic"),
    "wild-question-not-slash": ("C14", "fs/wildcard.py",      # invisible on file names (they contain no "/")
        '        elif c == "?":\n            res.append(".")\n', '        elif c == "?":\n            res.append("[^/]")\n', "semantic"),
    "wild-no-leading-bracket": ("C14", "fs/wildcard.py",
        '            if j < n and pattern[j] == "]":\n                j = j + 1\n', "", "semantic"),
    "wild-rename-local": ("C14", "fs/wildcard.py", "stuff", "body", "refactor"),
    "wild-swap-branches": ("C14", "fs/wildcard.py",
        '            if j >= n:\n                res.append("\\\\[")\n            else:\n'
        '                stuff = pattern[i:j].replace("\\\\", "\\\\\\\\")\n                i = j + 1\n'
        '                if stuff[0] == "!":\n                    stuff = "^" + stuff[1:]\n'
        '                elif stuff[0] == "^":\n                    stuff = "\\\\" + stuff\n'
        '                res.append("[%s]" % stuff)\n',
        '            if j < n:\n'
        '                stuff = pattern[i:j].replace("\\\\", "\\\\\\\\")\n                i = j + 1\n'
        '                if stuff[0] == "!":\n                    stuff = "^" + stuff[1:]\n'
        '                elif stuff[0] == "^":\n                    stuff = "\\\\" + stuff\n'
        '                res.append("[%s]" % stuff)\n            else:\n                res.append("\\\\[")\n', "refactor"),
    "glob-tail-ignores-slash": ("C14", "fs/glob.py",
        '("/\\\\Z" if pattern.endswith("/") else "/?\\\\Z")', '"/?\\\\Z"', "semantic"),
    "glob-split-ignores-brackets": ("C14", "fs/glob.py",
        '        if c == "/" and not bracket_open:\n', '        if c == "/":\n', "semantic"),
    "glob-rename-local": ("C14", "fs/glob.py", "re_patterns", "pieces", "refactor"),
    "glob-matcher-negated": ("C14", "fs/glob.py",
        "    matcher = match_any if case_sensitive else imatch_any\n",
        "    matcher = imatch_any if not case_sensitive else match_any\n", "refactor"),
    # ---- fs/permissions.py (harness/extract/permgen.py)
    "perm-asstr-wrong-index": ("C10", "fs/permissions.py",
        '            perms[2] = "s" if "u_x" in self._perms else "S"\n', '            perms[3] = "s" if "u_x" in self._perms else "S"\n', "semantic"),
    "perm-parse-short-group": ("C10", "fs/permissions.py", "        group = ls[3:6]\n", "        group = ls[3:5]\n", "semantic"),
    "perm-rename-local": ("C10", "fs/permissions.py", "perm_str", "text", "refactor"),
    "perm-check-issubset": ("C10", "fs/permissions.py",
        "        return self._perms.issuperset(permissions)\n", "        return set(permissions).issubset(self._perms)\n", "refactor"),
    "perm-mode-inverted": ("C10", "fs/permissions.py",
        "            if name in self._perms:\n                mode |= mask\n", "            if name not in self._perms:\n                mode |= mask\n", "semantic"),
    # ---- fs/tools.py copy_file_data (harness/extract/puregen.py)
    "tools-chunk-default-zero": ("C02", "fs/tools.py",
        "    _chunk_size = chunk_size or 1024 * 1024\n", "    _chunk_size = chunk_size or 0\n", "semantic"),
    "tools-write-first-byte": ("C02", "fs/tools.py", "        write(chunk)\n", "        write(chunk[:1])\n", "semantic"),
    "tools-rename-local": ("C02", "fs/tools.py", "_chunk_size", "size", "refactor"),
    "tools-no-aliases": ("C02", "fs/tools.py",
        "    read = src_file.read\n    write = dst_file.write\n    # The 'or None' is so that it works with binary and text files\n"
        "    for chunk in iter(\n        lambda: read(_chunk_size) or None, None\n    ):  # type: Optional[Union[bytes, str]]\n"
        "        write(chunk)\n",
        "    for chunk in iter(lambda: src_file.read(_chunk_size) or None, None):\n        dst_file.write(chunk)\n", "refactor"),
    "mode-reorder-or": ("C16", "fs/mode.py",
        '        return "a" in self or "w" in self or "x" in self\n',
        '        return "x" in self or "w" in self or "a" in self\n', "refactor"),
    # ---- round 4: fs/copy.py::_copy_is_necessary, fs/mirror.py::_compare (C19), fs/errors.py table (C06), class Info (C10)
    "copy-newer-or-equal": ("C19", "fs/copy.py",
        "                or src_modified > dst_modified\n", "                or src_modified >= dst_modified\n", "semantic"),
    "copy-missing-means-skip": ("C19", "fs/copy.py",
        "        except ResourceNotFound:\n            return True\n", "        except ResourceNotFound:\n            return False\n", "semantic"),
    "mirror-compare-or-equal": ("C19", "fs/mirror.py",
        "    return date1 is None or date2 is None or date1 > date2\n",
        "    return date1 is None or date2 is None or date1 >= date2\n", "semantic"),
    "copy-else-dedent": ("C19", "fs/copy.py",
        "        else:\n            return (\n                src_modified is None\n                or dst_modified is None\n"
        "                or src_modified > dst_modified\n            )\n",
        "        return (\n            src_modified is None\n            or dst_modified is None\n"
        "            or src_modified > dst_modified\n        )\n", "refactor"),
    "copy-rename-locals": ("C19", "fs/copy.py", "src_modified", "src_time", "refactor"),
    "mirror-compare-temp": ("C19", "fs/mirror.py",
        "    return date1 is None or date2 is None or date1 > date2\n",
        "    newer = date1 is None or date2 is None or date1 > date2\n    return newer\n", "refactor"),
    # (`class ResourceNotFound(FSError)` instead would break every backend's constructor calls: the run ends as INFRA)
    "errors-fileexpected-base": ("C06", "fs/errors.py",
        "class FileExpected(ResourceInvalid):", "class FileExpected(ResourceError):", "semantic"),
    "errors-template-field": ("C06", "fs/errors.py",
        "default_message = \"path '{path}' has no '{purpose}' URL\"", "default_message = \"path '{path}' has no '{kind}' URL\"", "semantic"),
    "errors-init-order": ("C06", "fs/errors.py",
        "        self.path = path\n        self.exc = exc\n        super(PathError, self).__init__(msg=msg)\n",
        "        self.exc = exc\n        self.path = path\n        super(PathError, self).__init__(msg=msg)\n", "refactor"),
    "errors-new-subclass": ("C06", "fs/errors.py",
        "class ResourceReadOnly(ResourceError):",
        "class ResourceBusy(ResourceError):\n    \"\"\"The resource is in use.\"\"\"\n\n    default_message = \"resource '{path}' is busy\"\n\n\n"
        "class ResourceReadOnly(ResourceError):", "refactor"),
    "info-suffix-keeps-dotfile": ("C10", "fs/info.py",
        "        if name.startswith(\".\") and name.count(\".\") == 1:\n            return \"\"\n", "", "semantic"),
    "info-is-link-no-namespace-check": ("C10", "fs/info.py",
        "        self._require_namespace(\"link\")\n        return self.get(\"link\", \"target\", None) is not None\n",
        "        return self.get(\"link\", \"target\", None) is not None\n", "semantic"),
    "info-get-without-try": ("C10", "fs/info.py",
        "        try:\n            return self.raw[namespace].get(key, default)  # type: ignore\n        except KeyError:\n            return default\n",
        "        if namespace in self.raw:\n            return self.raw[namespace].get(key, default)  # type: ignore\n        return default\n", "refactor"),
    "info-stem-temp": ("C10", "fs/info.py",
        "        return name.split(\".\")[0]\n", "        parts = name.split(\".\")\n        return parts[0]\n", "refactor"),
}


def run_one(name):
    prop, rel, old, new, kind = MUTATIONS[name]
    repo = os.path.join(SCRATCH, name)
    if os.path.exists(repo):
        shutil.rmtree(repo)
    shutil.copytree(REPO, repo, ignore=shutil.ignore_patterns(".git", "__pycache__", "*.pyc"))
    path = os.path.join(repo, rel)
    src = open(path, encoding="utf-8").read()
    if old not in src:
        print("== %s: SKIPPED, anchor text not found in %s" % (name, rel))
        shutil.rmtree(repo)
        return
    open(path, "w", encoding="utf-8").write(src.replace(old, new))
    env = dict(os.environ, VERIF_REPO=repo, VERIF_SEED="0")
    t0 = time.time()
    p = subprocess.run([os.path.join(VERIF, "check"), prop, "--tier", "quick"], cwd=VERIF, env=env,
                       stdout=subprocess.PIPE, stderr=subprocess.STDOUT, text=True)
    lines = p.stdout.strip().split("\n")
    keep = [l for l in lines if l.startswith("VIOLATION") or l.startswith("  ") or l.startswith(prop) or l.startswith("INFRA")
            or l.startswith("(")]
    print("== %s [%s, %s] exit=%d  %.0fs" % (name, kind, prop, p.returncode, time.time() - t0))
    for l in keep[:14]:
        print("   " + l[:260])
    sys.stdout.flush()
    shutil.rmtree(repo)


def main():
    names = sys.argv[1:] or list(MUTATIONS)
    try:
        for n in names:
            run_one(n)
    finally:
        shutil.rmtree(SCRATCH, ignore_errors=True)
        # regenerate from the real repository
        subprocess.run([sys.executable, os.path.join(VERIF, "harness", "extract", "generate.py")], cwd=VERIF,
                       env=dict(os.environ, VERIF_REPO=REPO))


if __name__ == "__main__":
    main()
