#!/usr/bin/env python3
"""Mutation self-test of the fs/path.py + fs/mode.py translator (design.d/PATHGEN.md, "Mutations tried").

For every mutation: copy $VERIF_REPO (default /repo) to a scratch directory, edit fs/path.py (or fs/mode.py)
there, run `./check C12 --tier quick` (or C16) with VERIF_REPO pointing at the copy, print the verdict lines,
delete the copy.  Afterwards the generated files are regenerated from the real repository.

    /venv/bin/python tools/pathgen_mutations.py [name ...]
"""
import os
import shutil
import subprocess
import sys
import time

VERIF = os.path.dirname(os.path.dirname(os.path.abspath(__file__)))
REPO = os.environ.get("VERIF_REPO", "/repo")
SCRATCH = "/tmp/verif-scratch/pathgen-mut-%d" % os.getpid()

# name -> (property, file, old text, new text, kind)
MUTATIONS = {
    # ---- semantic changes (must end in a VIOLATION with a replay)
    "isbase-raw-prefix": ("C12", "fs/path.py",
        "    _path1 = forcedir(abspath(path1))\n", "    _path1 = abspath(path1)\n", "semantic"),
    "normpath-keeps-empty": ("C12", "fs/path.py",
        '            if component in "..":  # True for \'..\', \'.\', and \'\'\n',
        '            if component in ["..", "."]:\n', "semantic"),
    "regex-without-double-slash": ("C12", "fs/path.py",
        '_requires_normalization = re.compile(r"(^|/)\\.\\.?($|/)|//", re.UNICODE).search',
        '_requires_normalization = re.compile(r"(^|/)\\.\\.?($|/)", re.UNICODE).search', "semantic"),
    "isparent-no-length-check": ("C12", "fs/path.py",
        "    if len(bits1) > len(bits2):\n        return False\n", "", "semantic"),
    "split-keeps-empty-head": ("C12", "fs/path.py",
        '    return (split[0] or "/", split[1])\n', "    return (split[0], split[1])\n", "semantic"),
    "mode-truncate-includes-a": ("C16", "fs/mode.py",
        '        return "w" in self or "x" in self\n', '        return "w" in self or "x" in self or "a" in self\n', "semantic"),
    # ---- harmless refactors (behaviour unchanged)
    "rename-local": ("C12", "fs/path.py", "components", "comps", "refactor"),
    "swap-if-else": ("C12", "fs/path.py",
        '    if not path.startswith("/"):\n        return "/" + path\n    return path\n',
        '    if path.startswith("/"):\n        return path\n    return "/" + path\n', "refactor"),
    "restructure-loop-body": ("C12", "fs/path.py",
        '            if component in "..":  # True for \'..\', \'.\', and \'\'\n'
        '                if component == "..":\n'
        '                    components.pop()\n'
        '            else:\n'
        '                components.append(component)\n',
        '            if component not in "..":\n'
        '                components.append(component)\n'
        '            elif component == "..":\n'
        '                components.pop()\n', "refactor"),
    "relativefrom-swap-branches": ("C12", "fs/path.py",
        "        if component_a != component_b:\n            break\n        common += 1\n",
        "        if component_a == component_b:\n            common += 1\n        else:\n            break\n", "refactor"),
    "isparent-continue": ("C12", "fs/path.py",
        "        if bit1 != bit2:\n            return False\n    return True\n",
        "        if bit1 == bit2:\n            continue\n        return False\n    return True\n", "refactor"),
    "temp-variable": ("C12", "fs/path.py",
        "    return dirname(normpath(path1)) == dirname(normpath(path2))\n",
        "    dir1 = dirname(normpath(path1))\n    dir2 = dirname(normpath(path2))\n    return dir1 == dir2\n", "refactor"),
    "while-instead-of-lstrip": ("C12", "fs/path.py",
        '    return path.lstrip("/")\n',
        '    while path.startswith("/"):\n        path = path[1:]\n    return path\n', "refactor"),
    "new-public-function": ("C12", "fs/path.py",
        "_WILD_CHARS = frozenset(",
        'def isroot(path):\n    # type: (Text) -> bool\n    return path == "/"\n\n\n_WILD_CHARS = frozenset(', "refactor"),
    "mode-reorder-or": ("C16", "fs/mode.py",
        '        return "a" in self or "w" in self or "x" in self\n',
        '        return "x" in self or "w" in self or "a" in self\n', "refactor"),
}


def run_one(name):
    prop, rel, old, new, kind = MUTATIONS[name]
    repo = os.path.join(SCRATCH, name)
    if os.path.exists(repo):
        shutil.rmtree(repo)
    shutil.copytree(REPO, repo, ignore=shutil.ignore_patterns(".git", "__pycache__", "*.pyc"))
    path = os.path.join(repo, rel)
    src = open(path, encoding="utf-8").read()
    if old not in src:
        print("== %s: SKIPPED, anchor text not found in %s" % (name, rel))
        shutil.rmtree(repo)
        return
    open(path, "w", encoding="utf-8").write(src.replace(old, new))
    env = dict(os.environ, VERIF_REPO=repo, VERIF_SEED="0")
    t0 = time.time()
    p = subprocess.run([os.path.join(VERIF, "check"), prop, "--tier", "quick"], cwd=VERIF, env=env,
                       stdout=subprocess.PIPE, stderr=subprocess.STDOUT, text=True)
    lines = p.stdout.strip().split("\n")
    keep = [l for l in lines if l.startswith("VIOLATION") or l.startswith("  ") or l.startswith(prop) or l.startswith("INFRA")
            or l.startswith("(")]
    print("== %s [%s, %s] exit=%d  %.0fs" % (name, kind, prop, p.returncode, time.time() - t0))
    for l in keep[:14]:
        print("   " + l[:260])
    sys.stdout.flush()
    shutil.rmtree(repo)


def main():
    names = sys.argv[1:] or list(MUTATIONS)
    try:
        for n in names:
            run_one(n)
    finally:
        shutil.rmtree(SCRATCH, ignore_errors=True)
        # regenerate from the real repository
        subprocess.run([sys.executable, os.path.join(VERIF, "harness", "extract", "generate.py")], cwd=VERIF,
                       env=dict(os.environ, VERIF_REPO=REPO))


if __name__ == "__main__":
    main()
