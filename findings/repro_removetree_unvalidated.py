"""FS.removetree normalises its argument without validating it."""
import sys
from fs.memoryfs import MemoryFS
from fs.multifs import MultiFS
from fs import errors

def build():
    layer = MemoryFS()
    layer.writebytes("keep.txt", b"data")
    layer.makedirs("d/e")
    m = MultiFS()
    m.add_fs("w", layer, write=True)
    return m, layer

m, layer = build()
for call in ("removedir", "remove", "listdir", "removetree"):
    try:
        getattr(m, call)("x\0/..")
        res = "returned"
    except errors.FSError as e:
        res = type(e).__name__
    print("MultiFS(%s)('x\\0/..') -> %s; root now %r" % (call, res, sorted(layer.listdir("/"))))
ok = sorted(layer.listdir("/")) == ["d", "keep.txt"]
try:
    MemoryFS().removetree("x\0/..")
except errors.InvalidCharsInPath:
    print("MemoryFS.removetree('x\\0/..') -> InvalidCharsInPath (the reference verdict)")
print("PASS" if ok else "FAIL: removetree of an invalid path emptied the filesystem")
sys.exit(0 if ok else 1)
