"""Reproduces every C04 / C18 finding on the real code.  Usage:
    /venv/bin/python findings/repro_c04_c18.py            (imports /repo, or $VERIF_REPO)
Each line prints what the property demands and what the code does."""
import io
import os
import sys
import warnings

sys.path.insert(0, os.environ.get("VERIF_REPO", "/repo"))
warnings.filterwarnings("ignore")

import fs.errors as E  # noqa: E402
from fs.memoryfs import MemoryFS  # noqa: E402
from fs.mountfs import MountFS  # noqa: E402
from fs.multifs import MultiFS  # noqa: E402
from fs.wrap import cache_directory, read_only  # noqa: E402
from fs.wrapfs import WrapFS  # noqa: E402


def show(label, fn):
    try:
        r = fn()
        print("%-62s -> returned %r" % (label, r))
    except Exception as e:  # noqa
        print("%-62s -> %s" % (label, type(e).__name__))


def tree(m):
    return sorted(m.walk.files()) + sorted(m.walk.dirs())


print("== C04: fs.wrap.read_only lets copydir / movedir write through")
m = MemoryFS()
m.makedirs("d/e")
m.writebytes("d/g", b"1")
ro = read_only(m)
show("read_only(m).copydir('d', 'copy', create=True)", lambda: ro.copydir("d", "copy", create=True))
print("   wrapped filesystem now:", tree(m))
show("read_only(m).movedir('d', 'moved', create=True)", lambda: ro.movedir("d", "moved", create=True))
print("   wrapped filesystem now:", tree(m))

print("== C04 (minor): read archives do not treat mode 'x' as a writing mode")
from fs.zipfs import ZipFS  # noqa: E402
from fs.tarfs import TarFS  # noqa: E402
for cls in (ZipFS, TarFS):
    b = io.BytesIO()
    with cls(b, write=True) as w:
        w.writebytes("f", b"1")
    b.seek(0)
    r = cls(b)
    show("%s(read).openbin('new', 'x')   [want ResourceReadOnly]" % cls.__name__, lambda: r.openbin("new", "x"))
    show("%s(read).openbin('f', 'x')     [want ResourceReadOnly]" % cls.__name__, lambda: r.openbin("f", "x").read())

print("== C04 (minor): _MemoryFile.on_modify() on a handle opened for reading changes the mtime")
m = MemoryFS()
m.writebytes("f", b"1")
import datetime  # noqa: E402
m.settimes("f", modified=datetime.datetime(2001, 1, 1, tzinfo=datetime.timezone.utc))
h = read_only(m).openbin("f", "r")
before = m.getinfo("f", ["details"]).modified
h.on_modify()
print("   modified before %s, after %s" % (before, m.getinfo("f", ["details"]).modified))

print("== C18: a closed SubFS / WrapFS still moves and copies on the filesystem it wraps")
m = MemoryFS()
m.makedirs("top/d")
m.writebytes("top/f", b"1")
sub = m.opendir("top")
sub.close()
show("closed SubFS .exists('f')        [guarded]", lambda: sub.exists("f"))
show("closed SubFS .move('f', 'g')", lambda: sub.move("f", "g"))
show("closed SubFS .copy('g', 'h')", lambda: sub.copy("g", "h"))
show("closed SubFS .movedir('d', 'd2', create=True)", lambda: sub.movedir("d", "d2", create=True))
show("closed SubFS .copydir('d2', 'd3', create=True)", lambda: sub.copydir("d2", "d3", create=True))
print("   parent filesystem now:", tree(m))

print("== C18: a closed WrapCachedDir answers from its cache")
m = MemoryFS()
m.writebytes("f", b"1")
c = cache_directory(m)
c.getinfo("f")
c.close()
show("closed cache_directory .getinfo('f')", lambda: c.getinfo("f"))
show("closed cache_directory .isdir('f')", lambda: c.isdir("f"))
show("closed cache_directory .isfile('f')", lambda: c.isfile("f"))
show("closed cache_directory .scandir('/')", lambda: list(c.scandir("/")))

print("== C18: MultiFS / MountFS methods without check()")
for auto in (True, False):
    mu = MultiFS(auto_close=auto)
    w = MemoryFS()
    w.writebytes("f", b"1")
    mu.add_fs("w", w, write=True)
    mu.close()
    tag = "closed MultiFS(auto_close=%s)" % auto
    show(tag + " .readbytes('f')     [guarded]", lambda: mu.readbytes("f"))
    show(tag + " .download('f', BytesIO())", lambda: mu.download("f", io.BytesIO()))
    show(tag + " .upload('u', BytesIO(b'x'))", lambda: mu.upload("u", io.BytesIO(b"x")))
    show(tag + " .writebytes('v', b'x')", lambda: mu.writebytes("v", b"x"))
    show(tag + " .writetext('t', 'x')", lambda: mu.writetext("t", "x"))
    show(tag + " .which('f')", lambda: mu.which("f"))
    if not auto:
        print("   member filesystem now:", tree(w))
for auto in (True, False):
    mo = MountFS(auto_close=auto)
    a = MemoryFS()
    a.writebytes("f", b"1")
    mo.mount("m", a)
    mo.close()
    tag = "closed MountFS(auto_close=%s)" % auto
    show(tag + " .readbytes('m/f')   [guarded]", lambda: mo.readbytes("m/f"))
    show(tag + " .download('m/f', BytesIO())", lambda: mo.download("m/f", io.BytesIO()))
    show(tag + " .writetext('m/t', 'x')", lambda: mo.writetext("m/t", "x"))
    if not auto:
        print("   member filesystem now:", tree(a))

print("== C18 (open finding): close() after the archive write failed")
import fs.zipfs as Z  # noqa: E402
orig = Z.write_zip
state = {"fail": True}


def flaky(*a, **k):
    if state["fail"]:
        state["fail"] = False
        raise IOError("disk full")
    return orig(*a, **k)


Z.write_zip = flaky
z = ZipFS(io.BytesIO(), write=True)
z.writebytes("f", b"1")
show("WriteZipFS.close() #1 (write fails)", z.close)
show("WriteZipFS.isclosed()", z.isclosed)
show("WriteZipFS.close() #2", z.close)
show("WriteZipFS.close() #3", z.close)
Z.write_zip = orig
z._closed = True
