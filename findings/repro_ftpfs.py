"""Reproductions of the FTPFS findings (findings/C01-ftpfs-*.md, C06-ftpfs-*.md, C10-ftpfs-*.md, C16-ftpfs-ftpfile.md).

    TZ=UTC /venv/bin/python findings/repro_ftpfs.py            # all cases
    TZ=UTC /venv/bin/python findings/repro_ftpfs.py create-on-directory list-child-of-file
    VERIF_REPO=/path/to/patched/copy ... repro_ftpfs.py       # against another tree

Each case is a few lines against a plain pyftpdlib server on the loopback interface (`server()`; by hand:
`python harness/ftpserver.py DIR [--nomlsd]` prints host, port, user, password); `nomlsd=True` removes MLSD/MLST
from the server's command table so that FTPFS parses LIST output.
"""
import os, sys, tempfile

sys.path.insert(0, os.environ.get("VERIF_REPO", "/repo"))
import warnings; warnings.filterwarnings("ignore")  # noqa
from fs.ftpfs import FTPFS  # noqa


def server(root, nomlsd=False):
    """a pyftpdlib server thread for `root` (harness/ftpserver.py: one IOLoop per server, user/1234, every
    permission; `nomlsd` removes MLSD/MLST from the handler's proto_cmds) -> port"""
    sys.path.insert(0, os.path.join(os.path.dirname(os.path.abspath(__file__)), "..", "harness"))
    import ftpserver
    return ftpserver.FtpServer(root, mlsd=not nomlsd).start().port


def ftpfs(nomlsd=False):
    root = tempfile.mkdtemp()
    return FTPFS("127.0.0.1", "user", "1234", port=server(root, nomlsd)), root


def show(label, fn):
    try:
        print("  %-46s -> %r" % (label, fn()))
    except BaseException as e:  # noqa
        print("  %-46s raises %s: %s" % (label, type(e).__name__, e))


CASES = {}


def case(fn):
    CASES[fn.__name__.replace("_", "-")] = fn
    return fn


@case
def create_on_directory():
    f, root = ftpfs()
    f.makedir("d")
    show("create('d')            [expected False]", lambda: f.create("d"))
    show("touch('d')             [expected: succeeds]", lambda: f.touch("d"))


@case
def setinfo_missing_path():
    f, root = ftpfs()
    show("settimes('missing')    [expected ResourceNotFound]", lambda: f.settimes("missing"))
    show("setinfo('missing', {'details': {'modified': 0}})", lambda: f.setinfo("missing", {"details": {"modified": 0}}))


@case
def openbin_write_modes():
    f, root = ftpfs()
    show("openbin('new', 'w+')   [expected: a file object]", lambda: f.openbin("new", "w+"))
    f.openbin("n2", "w").close()
    show("after openbin('n2','w').close(): exists('n2') [expected True]", lambda: f.exists("n2"))
    f.writebytes("old", b"old content")
    f.openbin("old", "w").close()
    show("after openbin('old','w').close(): readbytes [expected b'']", lambda: f.readbytes("old"))


@case
def newline_in_path():
    f, root = ftpfs()
    show("writebytes('h\\nx', b'')  [expected an fs.errors class]", lambda: f.writebytes("h\nx", b""))
    show("exists('a\\rb')", lambda: f.exists("a\rb"))


@case
def mlsd_name_separators():
    f, root = ftpfs()
    for name in ("x;y", "k=v", " lead", "trail "):
        f.writebytes(name, b"12")
    show("listdir('/')", lambda: sorted(f.listdir("/")))
    show("os.listdir(server directory)", lambda: sorted(os.listdir(root)))
    show("getinfo('x;y').name", lambda: f.getinfo("x;y").name)


@case
def list_child_of_file():
    f, root = ftpfs(nomlsd=True)
    f.writebytes("f", b"12")
    show("isfile('f/f')          [expected False]", lambda: f.isfile("f/f"))
    show("getsize('f/f')         [expected ResourceNotFound]", lambda: f.getsize("f/f"))
    show("isfile('f/g')", lambda: f.isfile("f/g"))


@case
def error_classes_550():
    f, root = ftpfs()
    f.makedir("d"); f.writebytes("file", b"x")
    show("writebytes('d', b'x')  [expected FileExpected]", lambda: f.writebytes("d", b"x"))
    show("copy('file', '/')      [expected FileExpected]", lambda: f.copy("file", "/", overwrite=True))
    show("makedir('file', recreate=True) [expected DirectoryExpected]", lambda: f.makedir("file", recreate=True))


@case
def ftpfile():
    f, root = ftpfs()

    def fresh(content=b"0123"):
        with open(os.path.join(root, "f"), "wb") as fh:
            fh.write(content)

    def disk():
        with open(os.path.join(root, "f"), "rb") as fh:
            return fh.read()
    fresh(); h = f.openbin("f", "r")
    show("r : seek(-1, 1) at 0           [OSError EINVAL]", lambda: h.seek(-1, 1))
    show("r : read(None)                 [b'0123']", lambda: h.read(None))
    show("r : readline(0)                [b'']", lambda: h.readline(0))
    show("r : seek(9); read()            [b'']", lambda: (h.seek(9), h.read())[1])
    show("r : truncate(0)                [UnsupportedOperation]", lambda: h.truncate(0))
    show("    ... file on disk now", disk)
    h.close()
    show("r : read() after close()       [ValueError closed]", lambda: h.read())
    show("r : tell() after close()       [ValueError closed]", lambda: h.tell())
    fresh(b"ab\n"); h = f.openbin("f", "r")
    show("r : readlines() of b'ab\\n'     [[b'ab\\n']]", h.readlines); h.close()
    fresh(); h = f.openbin("f", "a")
    show("a : tell() after open          [4]", h.tell)
    show("a : truncate()                 [4]", h.truncate); h.close()
    show("    ... file on disk now       [b'0123']", disk)
    fresh(); h = f.openbin("f", "r+"); h.write(b"X"); h.close()
    show("r+: write(b'X') at 0; close    [b'X123']", disk)
    fresh(); h = f.openbin("f", "r+"); h.read(1)
    show("r+: read(1); write(b'X')       [1]", lambda: h.write(b"X")); h.close()
    fresh(b""); h = f.openbin("f", "r+"); h.write(b"X")
    show("r+: write(b'X'); seek(0, 2)    [1]", lambda: h.seek(0, 2)); h.close()
    fresh(b""); h = f.openbin("f", "r+"); h.write(b"X"); h.truncate(0); h.close()
    show("r+: write(b'X'); truncate(0)   [b'']", disk)
    fresh(b"ab\ncd"); h = f.openbin("f", "r+"); h.read(2); h.truncate(0)
    show("r+: read(2); truncate(0); read()  [b'']", h.read); h.close()


if __name__ == "__main__":
    for name in (sys.argv[1:] or list(CASES)):
        print(name)
        CASES[name]()
